//! Replay / oracle runner: executes the REAL crate functions on concrete inputs.
//! Reads one command per line on stdin, prints one result line per command.
//! Used only to confirm solver counterexamples and to validate the MIR translator;
//! it never decides a property.
use minimal_lexical::extended_float::ExtendedFloat;
use minimal_lexical::num::Float;
use minimal_lexical::number::Number;
use std::io::{self, BufRead, Write};
use std::panic;

fn fmt_fp(fp: ExtendedFloat) -> String {
    format!("{} {}", fp.mant, fp.exp)
}

fn moderate<F: Float>(q: i32, w: u64, many: bool) -> ExtendedFloat {
    let num = Number { exponent: q, mantissa: w, many_digits: many };
    minimal_lexical::parse::moderate_path::<F>(&num)
}

fn fast<F: Float>(q: i32, w: u64, many: bool) -> String {
    let num = Number { exponent: q, mantissa: w, many_digits: many };
    match num.try_fast_path::<F>() {
        Some(v) => format!("some {}", v.to_bits()),
        None => "none".to_string(),
    }
}

fn round_ne<F: Float>(mant: u64, exp: i32) -> ExtendedFloat {
    let mut fp = ExtendedFloat { mant, exp };
    minimal_lexical::rounding::round::<F, _>(&mut fp, |f, s| {
        minimal_lexical::rounding::round_nearest_tie_even(f, s, |is_odd, is_halfway, is_above| {
            is_above || (is_odd && is_halfway)
        });
    });
    fp
}

fn round_dn<F: Float>(mant: u64, exp: i32) -> ExtendedFloat {
    let mut fp = ExtendedFloat { mant, exp };
    minimal_lexical::rounding::round::<F, _>(&mut fp, minimal_lexical::rounding::round_down);
    fp
}

fn run(parts: &[&str]) -> String {
    let f64p = parts.get(1).map(|s| *s == "f64").unwrap_or(true);
    macro_rules! by_fmt {
        ($e32:expr, $e64:expr) => {
            if f64p { $e64 } else { $e32 }
        };
    }
    match parts[0] {
        #[cfg(not(feature = "compact"))]
        "cf" => {
            let q: i32 = parts[2].parse().unwrap();
            let w: u64 = parts[3].parse().unwrap();
            fmt_fp(by_fmt!(
                minimal_lexical::lemire::compute_float::<f32>(q, w),
                minimal_lexical::lemire::compute_float::<f64>(q, w)
            ))
        },
        #[cfg(not(feature = "compact"))]
        "ce" => {
            let q: i32 = parts[2].parse().unwrap();
            let w: u64 = parts[3].parse().unwrap();
            fmt_fp(by_fmt!(
                minimal_lexical::lemire::compute_error::<f32>(q, w),
                minimal_lexical::lemire::compute_error::<f64>(q, w)
            ))
        },
        "moderate" => {
            let q: i32 = parts[2].parse().unwrap();
            let w: u64 = parts[3].parse().unwrap();
            let many = parts[4] == "1";
            fmt_fp(by_fmt!(moderate::<f32>(q, w, many), moderate::<f64>(q, w, many)))
        },
        "fast" => {
            let q: i32 = parts[2].parse().unwrap();
            let w: u64 = parts[3].parse().unwrap();
            let many = parts[4] == "1";
            by_fmt!(fast::<f32>(q, w, many), fast::<f64>(q, w, many))
        },
        "round" => {
            let mant: u64 = parts[2].parse().unwrap();
            let exp: i32 = parts[3].parse().unwrap();
            fmt_fp(by_fmt!(round_ne::<f32>(mant, exp), round_ne::<f64>(mant, exp)))
        },
        "round_down" => {
            let mant: u64 = parts[2].parse().unwrap();
            let exp: i32 = parts[3].parse().unwrap();
            fmt_fp(by_fmt!(round_dn::<f32>(mant, exp), round_dn::<f64>(mant, exp)))
        },
        "parse" => {
            // parse <fmt> <integer digits or -> <fraction digits or -> <exp>
            let i = if parts[2] == "-" { "" } else { parts[2] };
            let f = if parts[3] == "-" { "" } else { parts[3] };
            let e: i32 = parts[4].parse().unwrap();
            by_fmt!(
                format!("{}", minimal_lexical::parse_float::<f32, _, _>(i.as_bytes().iter(), f.as_bytes().iter(), e).to_bits()),
                format!("{}", minimal_lexical::parse_float::<f64, _, _>(i.as_bytes().iter(), f.as_bytes().iter(), e).to_bits())
            )
        },
        "sci" => {
            let q: i32 = parts[2].parse().unwrap();
            let w: u64 = parts[3].parse().unwrap();
            let num = Number { exponent: q, mantissa: w, many_digits: false };
            format!("{}", minimal_lexical::slow::scientific_exponent(&num))
        },
        "mask" => {
            let n: u64 = parts[2].parse().unwrap();
            format!(
                "{} {}",
                minimal_lexical::mask::lower_n_mask(n),
                minimal_lexical::mask::lower_n_halfway(n)
            )
        },
        _ => "error unknown-command".to_string(),
    }
}

fn main() {
    panic::set_hook(Box::new(|_| {}));
    let stdin = io::stdin();
    let stdout = io::stdout();
    let mut out = stdout.lock();
    for line in stdin.lock().lines() {
        let line = line.unwrap();
        let parts: Vec<&str> = line.split_whitespace().collect();
        if parts.is_empty() {
            continue;
        }
        let r = panic::catch_unwind(|| run(&parts));
        match r {
            Ok(s) => writeln!(out, "{}", s).unwrap(),
            Err(_) => writeln!(out, "panic").unwrap(),
        }
    }
}
