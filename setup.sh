#!/bin/sh
# Nothing needs building ahead of time: every check regenerates its encodings and builds its harnesses from
# /repo's working tree in a private scratch directory.  This only verifies that the tools are present.
set -e
cd "$(dirname "$0")"
for t in python3-vt z3-new z3 cvc5 cargo; do command -v $t >/dev/null || { echo "missing tool: $t"; exit 1; }; done
python3-vt -c "import sys; sys.path.insert(0,'.'); import mir2smt.symex, vlib.props" 
mkdir -p evidence replays
echo setup ok
