use crate::minimal_lexical::*;

fn is_dig(b: u8) -> bool {
    b'0' <= b && b <= b'9'
}

struct Scan {
    neg: bool,
    int_s: usize,
    int_e: usize,
    frac_s: usize,
    frac_e: usize,
    exp: i32,
    rest: usize,
}

/// Independent reference scanner: longest prefix of [+-]?[0-9]*(\.[0-9]*)?([eE][+-]?[0-9]*)?
fn scan<const N: usize>(s: &[u8; N], start: usize, neg: bool) -> Scan {
    let mut i = start;
    let int_s = i;
    while i < N && is_dig(s[i]) {
        i += 1;
    }
    let int_e = i;
    let (mut frac_s, mut frac_e) = (i, i);
    if i < N && s[i] == b'.' {
        i += 1;
        frac_s = i;
        while i < N && is_dig(s[i]) {
            i += 1;
        }
        frac_e = i;
    }
    let mut exp: i64 = 0;
    if i < N && (s[i] == b'e' || s[i] == b'E') {
        i += 1;
        let mut eneg = false;
        if i < N && (s[i] == b'+' || s[i] == b'-') {
            eneg = s[i] == b'-';
            i += 1;
        }
        let mut sat = false;
        while i < N && is_dig(s[i]) {
            if !sat {
                exp = exp * 10 + (s[i] - b'0') as i64;
                if exp > (1i64 << 31) {
                    sat = true;
                }
            }
            i += 1;
        }
        if eneg {
            exp = -exp;
        }
        if exp > i32::MAX as i64 {
            exp = i32::MAX as i64;
        }
        if exp < i32::MIN as i64 {
            exp = i32::MIN as i64;
        }
    }
    Scan { neg, int_s, int_e, frac_s, frac_e, exp: exp as i32, rest: i }
}

fn check_logged<const N: usize>(s: &[u8; N], sc: &Scan) {
    // integer: leading zeros trimmed; fraction: trailing zeros trimmed; all bytes digits
    let mut a = sc.int_s;
    while a < sc.int_e && s[a] == b'0' {
        a += 1;
    }
    let mut b = sc.frac_e;
    while b > sc.frac_s && s[b - 1] == b'0' {
        b -= 1;
    }
    unsafe {
        assert!(LOG_CALLS == 1);
        assert!(LOG_INT_N == sc.int_e - a);
        let mut i = 0;
        while i < LOG_INT_N {
            assert!(LOG_INT[i] == s[a + i]);
            i += 1;
        }
        assert!(LOG_FRAC_N == b - sc.frac_s);
        let mut j = 0;
        while j < LOG_FRAC_N {
            assert!(LOG_FRAC[j] == s[sc.frac_s + j]);
            j += 1;
        }
        assert!(LOG_EXP == sc.exp);
        // the library's preconditions hold for what it is given
        assert!(LOG_INT_N == 0 || LOG_INT[0] != b'0');
        assert!(LOG_FRAC_N == 0 || LOG_FRAC[LOG_FRAC_N - 1] != b'0');
    }
}

fn sign_of<const N: usize>(s: &[u8; N]) -> (bool, usize) {
    if N > 0 && s[0] == b'-' {
        (true, 1)
    } else if N > 0 && s[0] == b'+' {
        (false, 1)
    } else {
        (false, 0)
    }
}

/// examples/simple.rs
pub fn simple<const N: usize>() {
    let s: [u8; N] = kani::any();
    unsafe {
        LOG_CALLS = 0;
    }
    let (v, rest): (f64, &[u8]) = crate::fe_simple::parse_float::<f64>(&s);
    let (neg, start) = sign_of(&s);
    let sc = scan(&s, start, neg);
    assert!(rest.len() == N - sc.rest);
    assert!(N == 0 || rest.as_ptr() == s[sc.rest..].as_ptr()); // (a zero-length array has no stable address)
    check_logged(&s, &sc);
    let want = if neg { -(MARKER as f64) } else { MARKER as f64 };
    assert!(v.to_bits() == want.to_bits());
}

fn ci_prefix<const N: usize>(s: &[u8; N], at: usize, word: &[u8]) -> bool {
    if at + word.len() > N {
        return false;
    }
    let mut i = 0;
    while i < word.len() {
        let c = s[at + i];
        let lc = if b'A' <= c && c <= b'Z' { c + 32 } else { c };
        if lc != word[i] {
            return false;
        }
        i += 1;
    }
    true
}

/// tests/integration_tests.rs (also the fuzz target's copy): nan / inf / infinity first, empty match -> 0.
pub fn tests_copy<const N: usize>() {
    let s: [u8; N] = kani::any();
    unsafe {
        LOG_CALLS = 0;
    }
    let (v, rest): (f64, &[u8]) = crate::fe_tests::parse_float::<f64>(&s);
    let (neg, start) = sign_of(&s);
    let sign_bit = if neg { 1u64 << 63 } else { 0 };
    if ci_prefix(&s, start, b"nan") {
        assert!(rest.len() == N - start - 3);
        assert!(v != v);
        assert!(v.to_bits() >> 63 == sign_bit >> 63);
        unsafe { assert!(LOG_CALLS == 0) };
        return;
    }
    if ci_prefix(&s, start, b"infinity") {
        assert!(rest.len() == N - start - 8);
        assert!(v.to_bits() == (0x7FF0_0000_0000_0000u64 | sign_bit));
        return;
    }
    if ci_prefix(&s, start, b"inf") {
        assert!(rest.len() == N - start - 3);
        assert!(v.to_bits() == (0x7FF0_0000_0000_0000u64 | sign_bit));
        return;
    }
    let sc = scan(&s, start, neg);
    if sc.rest == 0 {
        // nothing consumed at all: returns 0 and the whole input
        assert!(rest.len() == N);
        assert!(v == 0.0);
        return;
    }
    assert!(rest.len() == N - sc.rest);
    assert!(N == 0 || rest.as_ptr() == s[sc.rest..].as_ptr()); // (a zero-length array has no stable address)
    check_logged(&s, &sc);
    let want = if neg { -(MARKER as f64) } else { MARKER as f64 };
    assert!(v.to_bits() == want.to_bits());
}

/// parse_exponent alone: exact for short digit strings ...
pub fn exponent_short<const N: usize>() {
    let d: [u8; N] = kani::any();
    let mut i = 0;
    let mut val: i64 = 0;
    while i < N {
        kani::assume(is_dig(d[i]));
        val = val * 10 + (d[i] - b'0') as i64;
        i += 1;
    }
    let pos: bool = kani::any();
    let want = if pos { val } else { -val } as i32;
    assert!(crate::fe_tests::parse_exponent(&d, pos) == want);
    assert!(crate::fe_simple::parse_exponent(&d, pos) == want);
}

/// ... saturating instead of overflowing at the i32 limits (the last two digits symbolic around 2^31) ...
pub fn exponent_edge() {
    let a: u8 = kani::any();
    let b: u8 = kani::any();
    kani::assume(a < 10 && b < 10);
    let d: [u8; 10] = [b'2', b'1', b'4', b'7', b'4', b'8', b'3', b'6', b'0' + a, b'0' + b];
    let pos: bool = kani::any();
    let val: i64 = 2_147_483_600 + 10 * a as i64 + b as i64;
    let val = if pos { val } else { -val };
    let want = if val > i32::MAX as i64 { i32::MAX } else if val < i32::MIN as i64 { i32::MIN } else { val as i32 };
    assert!(crate::fe_tests::parse_exponent(&d, pos) == want);
    assert!(crate::fe_simple::parse_exponent(&d, pos) == want);
    kani::cover!(val == i32::MIN as i64, "exactly i32::MIN");
    kani::cover!(val == i32::MAX as i64 + 1, "one above i32::MAX");
}

/// ... and for every longer string without a leading zero.
pub fn exponent_long<const N: usize>() {
    let d: [u8; N] = kani::any();
    let mut i = 0;
    while i < N {
        kani::assume(is_dig(d[i]));
        i += 1;
    }
    kani::assume(d[0] != b'0');
    let pos: bool = kani::any();
    let want = if pos { i32::MAX } else { i32::MIN };
    assert!(crate::fe_tests::parse_exponent(&d, pos) == want);
    assert!(crate::fe_simple::parse_exponent(&d, pos) == want);
}
