//! C19: the shipped string front-end (examples/simple.rs and its copy in tests/integration_tests.rs), compiled
//! from /repo's current files (copied and trimmed mechanically at run time into fe_simple.rs / fe_tests.rs),
//! with the library call replaced by a logger: the harness checks WHAT the front-end hands to the library and
//! what it returns, for every byte string of a given length.
#![allow(dead_code, unused_imports, unused_variables, unused_mut)]

#[cfg(kani)]
pub mod minimal_lexical {
    //! Shim with the same paths the front-end uses.
    pub use real::Float;

    pub static mut LOG_INT: [u8; 16] = [0; 16];
    pub static mut LOG_INT_N: usize = 0;
    pub static mut LOG_FRAC: [u8; 16] = [0; 16];
    pub static mut LOG_FRAC_N: usize = 0;
    pub static mut LOG_EXP: i32 = 0;
    pub static mut LOG_CALLS: usize = 0;

    pub const MARKER: u64 = 12345;

    pub fn parse_float<'a, F, Iter1, Iter2>(integer: Iter1, fraction: Iter2, exponent: i32) -> F
    where
        F: Float,
        Iter1: Iterator<Item = &'a u8> + Clone,
        Iter2: Iterator<Item = &'a u8> + Clone,
    {
        unsafe {
            LOG_CALLS += 1;
            LOG_INT_N = 0;
            for &b in integer {
                assert!(LOG_INT_N < 16);
                LOG_INT[LOG_INT_N] = b;
                LOG_INT_N += 1;
            }
            LOG_FRAC_N = 0;
            for &b in fraction {
                assert!(LOG_FRAC_N < 16);
                LOG_FRAC[LOG_FRAC_N] = b;
                LOG_FRAC_N += 1;
            }
            LOG_EXP = exponent;
        }
        F::from_u64(MARKER)
    }
}

#[cfg(kani)]
mod fe_simple {
    use super::minimal_lexical;
    include!("fe_simple.rs");
}

#[cfg(kani)]
mod fe_tests {
    use super::minimal_lexical;
    include!("fe_tests.rs");
}

#[cfg(kani)]
mod harness;
#[cfg(kani)]
mod instances;
