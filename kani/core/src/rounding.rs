use minimal_lexical::extended_float::{extended_to_float, ExtendedFloat};
use minimal_lexical::mask::{lower_n_halfway, lower_n_mask, nth_bit};
use minimal_lexical::num::Float;
use minimal_lexical::rounding::{round, round_down, round_nearest_tie_even};

/// Textbook round-half-even (or truncation) of mant * 2^(exp - bias), mant in [2^63, 2^64), to a float
/// with p1 explicit fraction bits; returns the IEEE bit pattern.  Written from the definition:
/// keep the top p1+1 bits if the result is normal, fewer if it is subnormal.
fn spec_bits(mant: u64, exp: i32, p1: u32, inf_field: u64, nearest: bool) -> u64 {
    let drop_normal = 63 - p1; // bits below the p1+1 kept ones
    let field0 = exp as i64 + drop_normal as i64; // exponent field if normal
    let (m0, rem, half, base): (u64, u64, u64, u64) = if field0 >= 1 {
        let s = drop_normal;
        (mant >> s, mant & ((1u64 << s) - 1), 1u64 << (s - 1), ((field0 - 1) as u64) << p1)
    } else {
        let s = (1 - exp as i64) as u32; // drop_normal + (1 - field0), in [drop_normal + 1, 64]
        if s >= 64 {
            (0, mant, 1u64 << 63, 0)
        } else {
            (mant >> s, mant & ((1u64 << s) - 1), 1u64 << (s - 1), 0)
        }
    };
    let up = nearest && (rem > half || (rem == half && (m0 & 1) == 1));
    if field0 >= 1 && field0 as u64 >= inf_field {
        return inf_field << p1;
    }
    let bits = base + m0 + up as u64;
    if (bits >> p1) >= inf_field {
        inf_field << p1
    } else {
        bits
    }
}

fn call_round_nearest<F: Float>(mant: u64, exp: i32) -> ExtendedFloat {
    let mut fp = ExtendedFloat { mant, exp };
    round::<F, _>(&mut fp, |f, s| {
        round_nearest_tie_even(f, s, |is_odd, is_halfway, is_above| is_above || (is_odd && is_halfway));
    });
    fp
}

fn call_round_down<F: Float>(mant: u64, exp: i32) -> ExtendedFloat {
    let mut fp = ExtendedFloat { mant, exp };
    round::<F, _>(&mut fp, round_down);
    fp
}

#[kani::proof]
fn c18_f64_nearest() {
    let mant: u64 = kani::any();
    let exp: i32 = kani::any();
    kani::assume(mant >> 63 == 1);
    kani::assume(-63 <= exp && exp <= 2100);
    let fp = call_round_nearest::<f64>(mant, exp);
    // fields are in range for packing: fraction below 2^52 except the single un-masked carry (2^52, 1)
    assert!(fp.exp >= 0 && fp.exp <= 0x7FF);
    assert!(fp.mant < (1u64 << 52) || (fp.mant == (1u64 << 52) && fp.exp == 1));
    let got = extended_to_float::<f64>(fp).to_bits();
    assert_eq!(got, spec_bits(mant, exp, 52, 0x7FF, true));
    kani::cover!(fp.exp == 0 && fp.mant != 0, "subnormal result");
    kani::cover!(fp.exp == 0 && fp.mant == 0, "rounds to zero");
    kani::cover!(fp.mant == (1u64 << 52), "rounded-up subnormal becomes smallest normal");
    kani::cover!(fp.exp == 0x7FF, "overflow to infinity");
    kani::cover!(exp == -63, "largest shift");
    kani::cover!(fp.exp > 1 && fp.mant == 0 && mant != (1u64 << 63), "carry into next binade");
}

#[kani::proof]
fn c18_f64_down() {
    let mant: u64 = kani::any();
    let exp: i32 = kani::any();
    kani::assume(mant >> 63 == 1);
    kani::assume(-63 <= exp && exp <= 2100);
    let fp = call_round_down::<f64>(mant, exp);
    assert!(fp.exp >= 0 && fp.exp <= 0x7FF);
    assert!(fp.mant < (1u64 << 52));
    let got = extended_to_float::<f64>(fp).to_bits();
    assert_eq!(got, spec_bits(mant, exp, 52, 0x7FF, false));
    kani::cover!(fp.exp == 0 && fp.mant != 0, "subnormal result");
    kani::cover!(fp.exp == 0x7FF, "infinite");
}

#[kani::proof]
fn c18_f32_nearest() {
    let mant: u64 = kani::any();
    let exp: i32 = kani::any();
    kani::assume(mant >> 63 == 1);
    kani::assume(-63 <= exp && exp <= 320);
    let fp = call_round_nearest::<f32>(mant, exp);
    assert!(fp.exp >= 0 && fp.exp <= 0xFF);
    assert!(fp.mant < (1u64 << 23) || (fp.mant == (1u64 << 23) && fp.exp == 1));
    let got = extended_to_float::<f32>(fp).to_bits() as u64;
    assert_eq!(got, spec_bits(mant, exp, 23, 0xFF, true));
    kani::cover!(fp.exp == 0 && fp.mant != 0, "subnormal result");
    kani::cover!(fp.mant == (1u64 << 23), "rounded-up subnormal becomes smallest normal");
    kani::cover!(fp.exp == 0xFF, "overflow to infinity");
}

#[kani::proof]
fn c18_f32_down() {
    let mant: u64 = kani::any();
    let exp: i32 = kani::any();
    kani::assume(mant >> 63 == 1);
    kani::assume(-63 <= exp && exp <= 320);
    let fp = call_round_down::<f32>(mant, exp);
    assert!(fp.exp >= 0 && fp.exp <= 0xFF);
    assert!(fp.mant < (1u64 << 23));
    let got = extended_to_float::<f32>(fp).to_bits() as u64;
    assert_eq!(got, spec_bits(mant, exp, 23, 0xFF, false));
}

#[kani::proof]
fn c18_masks() {
    let n: u64 = kani::any();
    kani::assume(n <= 64);
    let want_mask = ((1u128 << n) - 1) as u64;
    assert_eq!(lower_n_mask(n), want_mask);
    let want_half = if n == 0 { 0 } else { (1u128 << (n - 1)) as u64 };
    assert_eq!(lower_n_halfway(n), want_half);
    if n < 64 {
        assert_eq!(nth_bit(n), 1u64 << n);
    }
    kani::cover!(n == 64, "full width");
    kani::cover!(n == 0, "zero width");
}
