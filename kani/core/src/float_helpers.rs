use minimal_lexical::extended_float::{extended_to_float, ExtendedFloat};
use minimal_lexical::num::Float;
use minimal_lexical::slow::{b, bh};

// ---- f64 -------------------------------------------------------------------------------------

#[kani::proof]
fn c17_f64_fields() {
    let bits: u64 = kani::any();
    let x = <f64 as Float>::from_bits(bits);
    // lossless raw-bit conversion, all patterns including NaN payloads
    assert_eq!(<f64 as Float>::to_bits(x), bits);
    let e = (bits >> 52) & 0x7FF;
    let f = bits & 0x000F_FFFF_FFFF_FFFF;
    assert_eq!(x.is_denormal(), e == 0);
    if e == 0 {
        assert_eq!(x.exponent(), -1074);
        assert_eq!(x.mantissa(), f);
    } else {
        assert_eq!(x.exponent(), e as i32 - 1075);
        assert_eq!(x.mantissa(), f + (1u64 << 52));
    }
    kani::cover!(e == 0 && f != 0, "subnormal");
    kani::cover!(e == 0x7FF, "non-finite pattern");
    kani::cover!(bits >> 63 == 1, "sign bit set");
}

#[kani::proof]
fn c17_f64_reencode() {
    // mantissa * 2^exponent re-encodes to the magnitude bits for every finite value
    let bits: u64 = kani::any();
    kani::assume((bits >> 52) & 0x7FF != 0x7FF);
    let x = <f64 as Float>::from_bits(bits);
    let m = x.mantissa();
    let e = x.exponent();
    let field = if m >> 52 == 0 { 0 } else { (e + 1075) as u64 };
    let re = (field << 52) | (m & 0x000F_FFFF_FFFF_FFFF);
    assert_eq!(re, bits & 0x7FFF_FFFF_FFFF_FFFF);
    assert!(m < (1u64 << 53));
    assert!(-1074 <= e && e <= 971);
}

#[kani::proof]
fn c17_f64_pack() {
    let exp: i32 = kani::any();
    let frac: u64 = kani::any();
    kani::assume(0 <= exp && exp <= 0x7FF);
    kani::assume(frac < (1u64 << 52));
    let x: f64 = extended_to_float::<f64>(ExtendedFloat { mant: frac, exp });
    assert_eq!(x.to_bits(), ((exp as u64) << 52) | frac);
    // the un-masked carry that `round` can produce: mant == 2^52 with exp == 1 packs to the smallest normal
    let y: f64 = extended_to_float::<f64>(ExtendedFloat { mant: 1u64 << 52, exp: 1 });
    assert_eq!(y.to_bits(), 1u64 << 52);
}

#[kani::proof]
fn c17_f64_b_bh() {
    let bits: u64 = kani::any();
    kani::assume(bits >> 63 == 0 && (bits >> 52) & 0x7FF != 0x7FF);
    let x = f64::from_bits(bits);
    let e = (bits >> 52) & 0x7FF;
    let f = bits & 0x000F_FFFF_FFFF_FFFF;
    let (m, ex) = if e == 0 { (f, -1074) } else { (f + (1u64 << 52), e as i32 - 1075) };
    let fb = b(x);
    assert_eq!((fb.mant, fb.exp), (m, ex));
    let fbh = bh(x);
    assert_eq!((fbh.mant, fbh.exp), (2 * m + 1, ex - 1));
    kani::cover!(bits == 0, "bh(0) = (1, -1075)");
}

// ---- f32 -------------------------------------------------------------------------------------

#[kani::proof]
fn c17_f32_fields() {
    let bits32: u32 = kani::any();
    let bits = bits32 as u64;
    let x = <f32 as Float>::from_bits(bits);
    assert_eq!(<f32 as Float>::to_bits(x), bits);
    let e = (bits >> 23) & 0xFF;
    let f = bits & 0x7F_FFFF;
    assert_eq!(x.is_denormal(), e == 0);
    if e == 0 {
        assert_eq!(x.exponent(), -149);
        assert_eq!(x.mantissa(), f);
    } else {
        assert_eq!(x.exponent(), e as i32 - 150);
        assert_eq!(x.mantissa(), f + (1u64 << 23));
    }
    kani::cover!(e == 0 && f != 0, "subnormal");
    kani::cover!(e == 0xFF, "non-finite pattern");
}

#[kani::proof]
fn c17_f32_reencode() {
    let bits32: u32 = kani::any();
    let bits = bits32 as u64;
    kani::assume((bits >> 23) & 0xFF != 0xFF);
    let x = <f32 as Float>::from_bits(bits);
    let m = x.mantissa();
    let e = x.exponent();
    let field = if m >> 23 == 0 { 0 } else { (e + 150) as u64 };
    let re = (field << 23) | (m & 0x7F_FFFF);
    assert_eq!(re, bits & 0x7FFF_FFFF);
    assert!(m < (1u64 << 24));
    assert!(-149 <= e && e <= 104);
}

#[kani::proof]
fn c17_f32_pack() {
    let exp: i32 = kani::any();
    let frac: u64 = kani::any();
    kani::assume(0 <= exp && exp <= 0xFF);
    kani::assume(frac < (1u64 << 23));
    let x: f32 = extended_to_float::<f32>(ExtendedFloat { mant: frac, exp });
    assert_eq!(x.to_bits() as u64, ((exp as u64) << 23) | frac);
    let y: f32 = extended_to_float::<f32>(ExtendedFloat { mant: 1u64 << 23, exp: 1 });
    assert_eq!(y.to_bits(), 1u32 << 23);
}

#[kani::proof]
fn c17_f32_b_bh() {
    let bits32: u32 = kani::any();
    let bits = bits32 as u64;
    kani::assume(bits >> 31 == 0 && (bits >> 23) & 0xFF != 0xFF);
    let x = f32::from_bits(bits32);
    let e = (bits >> 23) & 0xFF;
    let f = bits & 0x7F_FFFF;
    let (m, ex) = if e == 0 { (f, -149) } else { (f + (1u64 << 23), e as i32 - 150) };
    let fb = b(x);
    assert_eq!((fb.mant, fb.exp), (m, ex));
    let fbh = bh(x);
    assert_eq!((fbh.mant, fbh.exp), (2 * m + 1, ex - 1));
}
