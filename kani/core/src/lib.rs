//! Kani proof harnesses over the compiled crate (engine E2): float field helpers (C17) and the
//! shift-and-round primitive (C18).  The specification side uses literal IEEE-754 parameters written
//! here, never the crate's own constants.
#![allow(dead_code)]

#[cfg(kani)]
mod float_helpers;
#[cfg(kani)]
mod rounding;

/// C15: replacement for the global allocation entry point in configurations without `alloc`.
#[cfg(kani)]
pub unsafe fn forbid_alloc(_layout: core::alloc::Layout) -> *mut u8 {
    panic!("HEAP-ALLOCATION");
}

#[cfg(kani)]
mod alloc_twin {
    /// vacuity twin: this harness allocates on purpose and MUST fail under the stub
    #[kani::proof]
    #[kani::stub(std::alloc::alloc, crate::forbid_alloc)]
    fn c15_twin_must_fail() {
        let x: u8 = kani::any();
        let v = vec![x];
        assert!(v.len() == 1);
    }
}
