//! Kani proof harnesses over the compiled crate (engine E2): float field helpers (C17) and the
//! shift-and-round primitive (C18).  The specification side uses literal IEEE-754 parameters written
//! here, never the crate's own constants.
#![allow(dead_code)]

#[cfg(kani)]
mod float_helpers;
#[cfg(kani)]
mod rounding;
