//! C12: big-integer primitives against textbook natural-number arithmetic (u128 carries).
use crate::model::*;
use minimal_lexical::bigint::{self, Limb, VecType};

#[cfg(not(feature = "alloc"))]
const BOUNDED: bool = true;
#[cfg(feature = "alloc")]
const BOUNDED: bool = false;

// ---- small_add_from ------------------------------------------------------------------------------
pub fn small_add_from_step<const N: usize, const START: usize>() {
    let a: [Limb; N] = any_arr();
    let y: Limb = kani::any();
    let start: usize = START; // START <= N (a symbolic start makes every limb access a symbolic index: too slow)
    let mut v = mk(&a);
    let r = bigint::small_add_from(&mut v, y, start);
    // reference: ripple the carry upwards from `start`
    let mut e = a;
    let mut carry = y;
    let mut i = 0;
    while i < N {
        if i >= start && carry != 0 {
            let s = e[i] as u128 + carry as u128;
            e[i] = s as Limb;
            carry = (s >> 64) as Limb;
        }
        i += 1;
    }
    if carry == 0 {
        assert!(r.is_some());
        assert!(same(&v, &e, N));
    } else if N < CAP || !BOUNDED {
        assert!(r.is_some());
        assert!(v.len() == N + 1);
        let mut j = 0;
        while j < N {
            assert!(v[j] == e[j]);
            j += 1;
        }
        assert!(v[N] == carry);
    } else {
        assert!(r.is_none()); // reported, not wrapped
        assert!(v.len() <= CAP);
    }
    kani::cover!(N > 1 && start == 0 && carry != 0, "opt:carry ripples through every limb");
}

// ---- small_mul with the real 64x64 multiplier (small lengths) ----------------------------------------
pub fn small_mul_real<const N: usize>() {
    let a: [Limb; N] = any_arr();
    let y: Limb = kani::any();
    let mut v = mk(&a);
    let r = bigint::small_mul(&mut v, y);
    let mut e = a;
    let mut carry: Limb = 0;
    let mut i = 0;
    while i < N {
        let p = (a[i] as u128) * (y as u128) + carry as u128;
        e[i] = p as Limb;
        carry = (p >> 64) as Limb;
        i += 1;
    }
    assert!(r.is_some());
    if carry == 0 {
        assert!(same(&v, &e, N));
    } else {
        assert!(v.len() == N + 1 && v[N] == carry);
        let mut j = 0;
        while j < N {
            assert!(v[j] == e[j]);
            j += 1;
        }
    }
}

// ---- small_mul with the multiplier abstracted by a call log -----------------------------------------
// The stub returns arbitrary (lo, hi) and records its arguments: the harness checks that the arguments are
// the schoolbook ones and that the output limbs are built from the returned values.  An arbitrary relation
// over-approximates every multiplier, so the carry-chain structure is verified for the real one too.
pub static mut LOG_X: [Limb; 64] = [0; 64];
pub static mut LOG_Y: [Limb; 64] = [0; 64];
pub static mut LOG_C: [Limb; 64] = [0; 64];
pub static mut LOG_LO: [Limb; 64] = [0; 64];
pub static mut LOG_HI: [Limb; 64] = [0; 64];
pub static mut NLOG: usize = 0;

pub fn scalar_mul_log(x: Limb, y: Limb, carry: Limb) -> (Limb, Limb) {
    let lo: Limb = kani::any();
    let hi: Limb = kani::any();
    unsafe {
        assert!(NLOG < 64);
        LOG_X[NLOG] = x;
        LOG_Y[NLOG] = y;
        LOG_C[NLOG] = carry;
        LOG_LO[NLOG] = lo;
        LOG_HI[NLOG] = hi;
        NLOG += 1;
    }
    (lo, hi)
}

pub fn small_mul_logged<const N: usize>() {
    let a: [Limb; N] = any_arr();
    let y: Limb = kani::any();
    let mut v = mk(&a);
    unsafe {
        NLOG = 0;
    }
    let r = bigint::small_mul(&mut v, y);
    unsafe {
        assert!(NLOG == N);
        let mut i = 0;
        while i < N {
            assert!(LOG_X[i] == a[i]);
            assert!(LOG_Y[i] == y);
            assert!(LOG_C[i] == if i == 0 { 0 } else { LOG_HI[i - 1] });
            i += 1;
        }
        let carry = if N == 0 { 0 } else { LOG_HI[N - 1] };
        if carry == 0 {
            assert!(r.is_some());
            assert!(v.len() == N);
        } else if N < CAP || !BOUNDED {
            assert!(r.is_some());
            assert!(v.len() == N + 1 && v[N] == carry);
        } else {
            assert!(r.is_none());
            assert!(v.len() <= CAP);
        }
        let mut j = 0;
        while j < N {
            assert!(v[j] == LOG_LO[j]);
            j += 1;
        }
    }
}

pub fn scalar_ops() {
    let x: Limb = kani::any();
    let y: Limb = kani::any();
    let c: Limb = kani::any();
    let (s, o) = bigint::scalar_add(x, y);
    let t = x as u128 + y as u128;
    assert!(s == t as Limb && o == (t >> 64 != 0));
}

// ---- large_add_from ----------------------------------------------------------------------------------
pub fn large_add_from_step<const XN: usize, const YN: usize, const START: usize, const OUT: usize>() {
    // OUT = max(XN, YN + START) + 1
    let a: [Limb; XN] = any_arr();
    let b: [Limb; YN] = any_arr();
    let mut v = mk(&a);
    let r = bigint::large_add_from(&mut v, &b, START);
    let mut e = [0 as Limb; OUT];
    let mut i = 0;
    while i < XN {
        e[i] = a[i];
        i += 1;
    }
    let mut carry: u128 = 0;
    let mut j = 0;
    while j + START < OUT {
        let add = if j < YN { b[j] as u128 } else { 0 };
        let s = e[j + START] as u128 + add + carry;
        e[j + START] = s as Limb;
        carry = s >> 64;
        j += 1;
    }
    // value needs `need` limbs
    let base = if XN > YN + START { XN } else { YN + START };
    let need = if e[OUT - 1] != 0 { OUT } else { base };
    if need <= CAP || !BOUNDED {
        assert!(r.is_some());
        assert!(v.len() == need);
        let mut k = 0;
        while k < need {
            assert!(v[k] == e[k]);
            k += 1;
        }
    } else {
        assert!(r.is_none());
        assert!(v.len() <= CAP);
    }
    kani::cover!(e[OUT - 1] != 0, "opt:carry past the longer operand");
}

// ---- long_mul / large_mul: multiplier abstracted by the call log, additions real -----------------------------
pub fn long_mul_logged<const XN: usize, const YN: usize, const OUT: usize>() {
    // OUT = XN + YN + 1 ; non-zero limbs of y (a zero limb of y is skipped by the code: covered by long_mul_zero_limb)
    let a: [Limb; XN] = any_arr();
    let b: [Limb; YN] = any_arr();
    let mut j = 0;
    while j < YN {
        kani::assume(b[j] != 0);
        j += 1;
    }
    unsafe {
        NLOG = 0;
    }
    let r = bigint::long_mul(&a, &b);
    let mut e = [0 as Limb; OUT];
    unsafe {
        assert!(NLOG == XN * YN);
        let mut j = 0;
        while j < YN {
            // row j: the logged low words, then the last high word
            let mut carry: u128 = 0;
            let mut i = 0;
            while i <= XN {
                let k = j * XN + i;
                let limb = if i < XN { LOG_LO[k] } else if XN > 0 { LOG_HI[k - 1] } else { 0 };
                if i < XN {
                    assert!(LOG_X[k] == a[i] && LOG_Y[k] == b[j]);
                    assert!(LOG_C[k] == if i == 0 { 0 } else { LOG_HI[k - 1] });
                }
                let sum = e[i + j] as u128 + limb as u128 + carry;
                e[i + j] = sum as Limb;
                carry = sum >> 64;
                i += 1;
            }
            let mut t = XN + 1 + j;
            while t < OUT {
                let sum = e[t] as u128 + carry;
                e[t] = sum as Limb;
                carry = sum >> 64;
                t += 1;
            }
            assert!(carry == 0);
            j += 1;
        }
    }
    let z = r.unwrap();
    let mut n = OUT;
    while n > 0 && e[n - 1] == 0 {
        n -= 1;
    }
    assert!(same(&z, &e, n));
    assert!(z.is_normalized());
}

pub fn long_mul_zero_limb() {
    // y = [y0, 0, y2]: the zero limb contributes nothing (real multiplier, one-limb x)
    let a: [Limb; 1] = any_arr();
    let y0: Limb = kani::any();
    let y2: Limb = kani::any();
    kani::assume(y2 != 0 && a[0] != 0);
    let z = bigint::long_mul(&a, &[y0, 0, y2]).unwrap();
    let p0 = a[0] as u128 * y0 as u128;
    let p2 = a[0] as u128 * y2 as u128;
    let e0 = p0 as Limb;
    let e1 = (p0 >> 64) as Limb;
    let e2 = p2 as Limb;
    let e3 = (p2 >> 64) as Limb;
    let e = [e0, e1, e2, e3];
    let n = if e3 != 0 { 4 } else { 3 };
    assert!(same(&z, &e, n));
}

// ---- shifts ------------------------------------------------------------------------------------------
pub fn shl_bits_step<const N: usize>() {
    let a: [Limb; N] = any_arr();
    let n: usize = kani::any();
    kani::assume(1 <= n && n < 64);
    let mut v = mk(&a);
    let r = bigint::shl_bits(&mut v, n);
    let mut e = a;
    let mut prev: Limb = 0;
    let mut i = 0;
    while i < N {
        e[i] = (a[i] << n) | (prev >> (64 - n));
        prev = a[i];
        i += 1;
    }
    let carry = prev >> (64 - n);
    if carry == 0 {
        assert!(r.is_some());
        assert!(same(&v, &e, N));
    } else if N < CAP || !BOUNDED {
        assert!(r.is_some());
        assert!(v.len() == N + 1 && v[N] == carry);
        let mut j = 0;
        while j < N {
            assert!(v[j] == e[j]);
            j += 1;
        }
    } else {
        assert!(r.is_none());
        assert!(v.len() <= CAP);
    }
}

pub fn shl_limbs_step<const N: usize, const K: usize>() {
    // K >= 1 limbs.  "Available capacity" is the fixed 62 limbs of the stack vector, or what the heap vector has
    // reserved (at least 62: it is created with that capacity); beyond it the operation must report failure.
    let a: [Limb; N] = any_arr();
    let mut v = mk(&a);
    let cap = v.capacity();
    assert!(cap >= CAP);
    let r = bigint::shl_limbs(&mut v, K);
    if N + K <= cap {
        assert!(r.is_some());
        if N == 0 {
            assert!(v.len() == 0);
        } else {
            assert!(v.len() == N + K);
            let mut i = 0;
            while i < K {
                assert!(v[i] == 0);
                i += 1;
            }
            let mut j = 0;
            while j < N {
                assert!(v[K + j] == a[j]);
                j += 1;
            }
        }
    } else {
        assert!(r.is_none());
        assert!(same(&v, &a, N));
    }
}

pub fn shl_limbs_after_clone<const N: usize, const K: usize>() {
    // a cloned heap vector has only `len` limbs reserved: the raw-pointer move inside shl_limbs must stay inside what
    // capacity() reports, and capacity() must be what is really allocated (Kani checks every access)
    let a: [Limb; N] = any_arr();
    let orig = mk(&a);
    let mut v = orig.clone();
    let cap = v.capacity();
    let r = bigint::shl_limbs(&mut v, K);
    if r.is_some() {
        assert!(N == 0 || N + K <= cap);
        if N > 0 {
            assert!(v.len() == N + K);
            let mut j = 0;
            while j < N {
                assert!(v[K + j] == a[j]);
                j += 1;
            }
            let mut i = 0;
            while i < K {
                assert!(v[i] == 0);
                i += 1;
            }
        }
    } else {
        assert!(N + K > cap);
        assert!(same(&v, &a, N));
    }
}

pub fn shl_step<const N: usize, const K: usize, const BITS: usize>() {
    // shl(n) with n = 64*K + BITS, both concrete (shl_bits is verified for symbolic bit counts at every length;
    // a symbolic n here turns the limb move into a symbolic-offset memmove, which CBMC cannot finish)
    let a: [Limb; N] = any_arr();
    kani::assume(N == 0 || a[N - 1] != 0);
    let bits: usize = BITS;
    let mut v = mk(&a);
    let r = bigint::shl(&mut v, 64 * K + bits);
    // needed limbs: N + K (+1 if the bit shift carries out)
    let carry = if N > 0 && bits > 0 { a[N - 1] >> (64 - bits) } else { 0 };
    let need = if N == 0 { 0 } else { N + K + (carry != 0) as usize };
    if need > CAP && !BOUNDED {
        // heap back-end beyond 62 limbs: succeeds or reports failure depending on what it has reserved
        return;
    }
    if need <= CAP {
        assert!(r.is_some());
        assert!(v.len() == need);
        let mut i = 0;
        while i < K && i < need {
            assert!(v[i] == 0);
            i += 1;
        }
        let mut j = 0;
        let mut prev: Limb = 0;
        while j < N {
            let want = if bits == 0 { a[j] } else { (a[j] << bits) | (prev >> (64 - bits)) };
            assert!(v[K + j] == want);
            prev = a[j];
            j += 1;
        }
        if carry != 0 {
            assert!(v[K + N] == carry);
        }
    } else {
        assert!(r.is_none());
        assert!(v.len() <= CAP);
    }
}

// ---- hi64 / bit_length / leading_zeros / nonzero --------------------------------------------------------
pub fn hi64_step<const N: usize>() {
    let a: [Limb; N] = any_arr();
    kani::assume(N == 0 || a[N - 1] != 0); // normalised, as the callers establish
    let v = mk(&a);
    let (hi, sticky) = bigint::hi64(&v);
    let lz = bigint::leading_zeros(&v);
    let bl = bigint::bit_length(&v);
    if N == 0 {
        assert!(hi == 0 && !sticky && lz == 0 && bl == 0);
        return;
    }
    let top = a[N - 1];
    let z = top.leading_zeros();
    assert!(lz == z);
    assert!(bl == 64 * N as u32 - z);
    // top 64 bits of the number
    let next = if N >= 2 { a[N - 2] } else { 0 };
    let want_hi = if z == 0 { top } else { (top << z) | (next >> (64 - z)) };
    assert!(hi == want_hi);
    // sticky: any bit below those 64 is set
    let mut low = if N >= 2 { (next << z) != 0 } else { false };
    let mut i = 0;
    while i + 2 < N {
        low |= a[i] != 0;
        i += 1;
    }
    assert!(sticky == low);
    kani::cover!(sticky && N > 2 && (next << z) == 0, "opt:sticky bit comes from a low limb only");
}

pub fn nonzero_step<const N: usize, const R: usize>() {
    let a: [Limb; N] = any_arr();
    let v = mk(&a);
    let r: usize = R; // R <= N
    let got = bigint::nonzero(&v, r);
    let mut want = false;
    let mut i = 0;
    while i + r < N {
        want |= a[i] != 0;
        i += 1;
    }
    assert!(got == want);
}

// ---- pow: decomposition into the table factors (multiplications replaced by trace stubs) -------------------
pub static mut POW_KIND: [u8; 40] = [0; 40]; // 1 = small_mul(limb), 2 = large_mul(slice)
pub static mut POW_VAL: [Limb; 40] = [0; 40];
pub static mut POW_OK: [bool; 40] = [false; 40];
pub static mut NPOW: usize = 0;

pub fn small_mul_trace(_x: &mut VecType, y: Limb) -> Option<()> {
    unsafe {
        assert!(NPOW < 40);
        POW_KIND[NPOW] = 1;
        POW_VAL[NPOW] = y;
        NPOW += 1;
    }
    Some(())
}

pub fn large_mul_trace(_x: &mut VecType, y: &[Limb]) -> Option<()> {
    // the large factor must be the 5-limb constant (its VALUE, 5^135, is the table obligation C14)
    let ok = y.len() == 5
        && y[0] == 1414648277510068013
        && y[1] == 9180637584431281687
        && y[2] == 4539964771860779200
        && y[3] == 10482974169319127550
        && y[4] == 198276706040285095;
    unsafe {
        assert!(NPOW < 40);
        POW_KIND[NPOW] = 2;
        POW_OK[NPOW] = ok;
        NPOW += 1;
    }
    Some(())
}

#[cfg(not(feature = "compact"))]
const POW_MAX_EXP: u32 = 2048;
// compact builds have no 5^135 step: 27 per iteration, so the same trace length covers a smaller exponent range
#[cfg(feature = "compact")]
const POW_MAX_EXP: u32 = 800;

pub fn pow_decomposition() {
    let exp: u32 = kani::any();
    kani::assume(exp <= POW_MAX_EXP);
    let mut v = VecType::from_u64(1);
    unsafe {
        NPOW = 0;
    }
    assert!(bigint::pow(&mut v, exp).is_some());
    // sum of the exponents of the logged factors
    let mut total: u32 = 0;
    unsafe {
        let mut i = 0;
        while i < NPOW {
            if POW_KIND[i] == 2 {
                assert!(POW_OK[i]);
                total += 135;
            } else {
                // a power of five below 2^64: find its exponent
                let mut p: Limb = 1;
                let mut k: u32 = 0;
                while k < 27 && p != POW_VAL[i] {
                    p *= 5;
                    k += 1;
                }
                assert!(p == POW_VAL[i]);
                assert!(k >= 1);
                total += k;
            }
            i += 1;
        }
    }
    assert!(total == exp);
    kani::cover!(exp >= 135 && exp % 27 != 0, "opt:large, small and remainder factors");
    #[cfg(feature = "compact")]
    unsafe {
        // compact: every factor comes from u64::pow on demand (no table, no large step)
        let mut i = 0;
        while i < NPOW {
            assert!(POW_KIND[i] == 1);
            i += 1;
        }
    }
}

// ---- concrete-operand runs of the composed operations (no symbolic data: CBMC folds them) ---------------------
// They pin down long_mul / large_mul / pow end to end on fixed operands (value-dependent lengths make the symbolic
// versions intractable) and, under the allocator stub of C15, show that these paths do not allocate.
pub fn long_mul_concrete() {
    let x: [Limb; 3] = [0x1234_5678_9abc_def0, 0xffff_ffff_ffff_ffff, 0x0fed_cba9_8765_4321];
    let y: [Limb; 5] = [1414648277510068013, 9180637584431281687, 4539964771860779200, 10482974169319127550, 198276706040285095];
    let z = bigint::long_mul(&x, &y).unwrap();
    // schoolbook reference
    let mut e = [0 as Limb; 8];
    let mut j = 0;
    while j < 5 {
        let mut carry: u128 = 0;
        let mut i = 0;
        while i < 3 {
            let p = (x[i] as u128) * (y[j] as u128) + e[i + j] as u128 + carry;
            e[i + j] = p as Limb;
            carry = p >> 64;
            i += 1;
        }
        e[3 + j] = carry as Limb;
        j += 1;
    }
    let n = if e[7] != 0 { 8 } else { 7 };
    assert!(same(&z, &e, n));
    let mut v = mk(&x);
    assert!(bigint::large_mul(&mut v, &y).is_some());
    assert!(same(&v, &e, n));
}

pub fn pow_concrete() {
    // 7 * 5^300 through the real pow (two 5^135 steps, one 5^27 step, one 5^3 step) against 300 multiplications by 5
    let mut v = VecType::from_u64(7);
    assert!(bigint::pow(&mut v, 300).is_some());
    let mut e = [0 as Limb; 16];
    e[0] = 7;
    let mut k = 0;
    while k < 300 {
        let mut carry: u128 = 0;
        let mut i = 0;
        while i < 16 {
            let p = (e[i] as u128) * 5 + carry;
            e[i] = p as Limb;
            carry = p >> 64;
            i += 1;
        }
        k += 1;
    }
    let mut n = 16;
    while n > 0 && e[n - 1] == 0 {
        n -= 1;
    }
    assert!(same(&v, &e, n));
}

// ---- Bigint::pow(base, exp): dispatch to the power-of-five multiply and the shift (both replaced by trace stubs) ----
pub static mut D_POW5: [u32; 4] = [0; 4];
pub static mut D_NPOW5: usize = 0;
pub static mut D_SHL: [usize; 4] = [0; 4];
pub static mut D_NSHL: usize = 0;
pub static mut D_ORDER_OK: bool = true;

pub fn pow5_trace(_x: &mut VecType, exp: u32) -> Option<()> {
    unsafe {
        assert!(D_NPOW5 < 4);
        D_POW5[D_NPOW5] = exp;
        D_NPOW5 += 1;
    }
    Some(())
}

pub fn shl_trace(_x: &mut VecType, n: usize) -> Option<()> {
    unsafe {
        assert!(D_NSHL < 4);
        D_SHL[D_NSHL] = n;
        D_NSHL += 1;
    }
    Some(())
}

pub fn bigint_pow_dispatch() {
    use minimal_lexical::bigint::Bigint;
    let exp: u32 = kani::any();
    let which: u8 = kani::any();
    kani::assume(which < 3);
    let base: u32 = if which == 0 { 2 } else if which == 1 { 5 } else { 10 };
    let mut b = Bigint::from_u64(3);
    unsafe {
        D_NPOW5 = 0;
        D_NSHL = 0;
    }
    assert!(b.pow(base, exp).is_some());
    unsafe {
        // 10^e = 5^e * 2^e, 5^e = 5^e, 2^e = shift by e
        assert!(D_NPOW5 == (base % 5 == 0) as usize);
        assert!(D_NSHL == (base % 2 == 0) as usize);
        if base % 5 == 0 {
            assert!(D_POW5[0] == exp);
        }
        if base % 2 == 0 {
            assert!(D_SHL[0] == exp as usize);
        }
    }
}
