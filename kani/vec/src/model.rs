//! Reference models: little-endian natural numbers as plain arrays, textbook algorithms.
use minimal_lexical::bigint::{Limb, VecType};

pub const CAP: usize = 62;

/// Build a vector holding exactly the N given limbs (N <= CAP) through the safe API.
pub fn mk<const N: usize>(a: &[Limb; N]) -> VecType {
    let mut v = VecType::new();
    let mut i = 0;
    while i < N {
        assert!(v.try_push(a[i]).is_some());
        i += 1;
    }
    v
}

pub fn any_arr<const N: usize>() -> [Limb; N] {
    kani::any()
}

/// contents of `v` equal the first `n` entries of `want`
pub fn same(v: &VecType, want: &[Limb], n: usize) -> bool {
    if v.len() != n {
        return false;
    }
    let mut i = 0;
    while i < n {
        if v[i] != want[i] {
            return false;
        }
        i += 1;
    }
    true
}
