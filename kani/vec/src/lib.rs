//! Kani proof harnesses for the vector back-ends (C13) and the big-integer primitives (C12).
//! Shape concrete (lengths are const generics, enumerated by the generated `instances.rs`),
//! contents symbolic (every limb is `kani::any()`).
#![allow(dead_code, unused_imports, unused_macros)]

#[cfg(kani)]
mod model;
#[cfg(kani)]
mod vecops;
#[cfg(kani)]
mod bigops;
#[cfg(kani)]
mod instances;
