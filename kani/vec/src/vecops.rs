//! C13: one operation with arbitrary arguments from an ARBITRARY valid state (length N, any contents)
//! agrees with the reference sequence, keeps len <= capacity, and leaves the contents unchanged on failure.
//! Every valid state is reachable (new + N pushes), so this single inductive step covers histories of any length.
use crate::model::*;
use core::cmp::Ordering;
use minimal_lexical::bigint::{Limb, VecType};

#[cfg(not(feature = "alloc"))]
const BOUNDED: bool = true;
#[cfg(feature = "alloc")]
const BOUNDED: bool = false;

pub fn push_step<const N: usize>() {
    let a: [Limb; N] = any_arr();
    let mut v = mk(&a);
    assert!(v.len() == N && v.len() <= v.capacity());
    let x: Limb = kani::any();
    let r = v.try_push(x);
    if N < CAP || !BOUNDED {
        assert!(r.is_some());
        assert!(v.len() == N + 1);
        assert!(same_prefix(&v, &a, N));
        assert!(v[N] == x);
    } else {
        assert!(r.is_none());
        assert!(same(&v, &a, N));
    }
    assert!(!BOUNDED || v.len() <= CAP);
}

fn same_prefix(v: &VecType, want: &[Limb], n: usize) -> bool {
    if v.len() < n {
        return false;
    }
    let mut i = 0;
    while i < n {
        if v[i] != want[i] {
            return false;
        }
        i += 1;
    }
    true
}

pub fn pop_step<const N: usize>() {
    let a: [Limb; N] = any_arr();
    let mut v = mk(&a);
    let r = v.pop();
    if N == 0 {
        assert!(r.is_none());
        assert!(v.len() == 0);
    } else {
        assert!(r == Some(a[N - 1]));
        assert!(same(&v, &a, N - 1));
    }
}

pub fn extend_step<const N: usize, const K: usize>() {
    let a: [Limb; N] = any_arr();
    let s: [Limb; K] = any_arr();
    let mut v = mk(&a);
    let r = v.try_extend(&s);
    if N + K <= CAP || !BOUNDED {
        assert!(r.is_some());
        assert!(v.len() == N + K);
        assert!(same_prefix(&v, &a, N));
        let mut i = 0;
        while i < K {
            assert!(v[N + i] == s[i]);
            i += 1;
        }
    } else {
        assert!(r.is_none());
        assert!(same(&v, &a, N));
    }
}

pub fn try_from_step<const K: usize>() {
    let s: [Limb; K] = any_arr();
    let r = VecType::try_from(&s);
    if K <= CAP || !BOUNDED {
        let v = r.unwrap();
        assert!(same(&v, &s, K));
    } else {
        assert!(r.is_none());
    }
}

pub fn resize_step<const N: usize, const T: usize>() {
    let a: [Limb; N] = any_arr();
    let mut v = mk(&a);
    let fill: Limb = kani::any();
    let r = v.try_resize(T, fill);
    if T <= CAP || !BOUNDED {
        assert!(r.is_some());
        assert!(v.len() == T);
        let keep = if T < N { T } else { N };
        assert!(same_prefix(&v, &a, keep));
        let mut i = N;
        while i < T {
            assert!(v[i] == fill);
            i += 1;
        }
    } else {
        assert!(r.is_none());
        assert!(same(&v, &a, N));
    }
}

pub fn normalize_step<const N: usize>() {
    let a: [Limb; N] = any_arr();
    let mut v = mk(&a);
    // reference: strip most-significant zero limbs
    let mut n = N;
    while n > 0 && a[n - 1] == 0 {
        n -= 1;
    }
    let was_norm = v.is_normalized();
    assert!(was_norm == (N == 0 || a[N - 1] != 0));
    v.normalize();
    assert!(same(&v, &a, n));
    assert!(v.is_normalized());
    kani::cover!(n + 1 < N, "opt:strips more than one limb");
    kani::cover!(n == 0 && N > 0, "opt:all-zero vector becomes empty");
}

pub fn cmp_equal_len<const N: usize>() {
    let a: [Limb; N] = any_arr();
    let b: [Limb; N] = any_arr();
    let va = mk(&a);
    let vb = mk(&b);
    // reference: most significant differing limb decides
    let mut want = Ordering::Equal;
    let mut i = N;
    while i > 0 {
        i -= 1;
        if a[i] != b[i] {
            want = if a[i] < b[i] { Ordering::Less } else { Ordering::Greater };
            break;
        }
    }
    assert!(va.cmp(&vb) == want);
    assert!(va.partial_cmp(&vb) == Some(want));
    assert!(minimal_lexical::bigint::compare(&va, &vb) == want);
    kani::cover!(want == Ordering::Less, "opt:less");
    kani::cover!(N > 1 && want == Ordering::Greater && a[N - 1] == b[N - 1], "opt:decided below the top limb");
}

pub fn cmp_unequal_len<const N: usize, const M: usize>() {
    // normalised operands of different length: the longer one is larger
    let a: [Limb; N] = any_arr();
    let b: [Limb; M] = any_arr();
    kani::assume(N == 0 || a[N - 1] != 0);
    kani::assume(M == 0 || b[M - 1] != 0);
    let va = mk(&a);
    let vb = mk(&b);
    let want = if N < M { Ordering::Less } else { Ordering::Greater };
    assert!(va.cmp(&vb) == want);
    assert!(va != vb);
}

pub fn clone_deref_step<const N: usize>() {
    let a: [Limb; N] = any_arr();
    let mut v = mk(&a);
    let c = v.clone();
    assert!(same(&c, &a, N));
    assert!(c.len() == v.len());
    // deref_mut writes through, other slots untouched
    if N > 0 {
        let i: usize = kani::any();
        kani::assume(i < N);
        let x: Limb = kani::any();
        v[i] = x;
        let mut j = 0;
        while j < N {
            assert!(v[j] == if j == i { x } else { a[j] });
            j += 1;
        }
        assert!(same(&c, &a, N)); // the clone is independent
    }
    let s: &[Limb] = &v;
    assert!(s.len() == N);
}

pub fn from_u64_step() {
    let x: u64 = kani::any();
    let v = VecType::from_u64(x);
    if x == 0 {
        assert!(v.len() == 0);
    } else {
        assert!(v.len() == 1 && v[0] == x);
    }
    assert!(v.is_normalized());
}

/// `==` agrees with numeric equality (the slice comparison is a memcmp loop: separate harness, own unwind bound)
pub fn eq_step<const N: usize>() {
    let a: [Limb; N] = any_arr();
    let b: [Limb; N] = any_arr();
    let va = mk(&a);
    let vb = mk(&b);
    let mut same_all = true;
    let mut i = 0;
    while i < N {
        same_all &= a[i] == b[i];
        i += 1;
    }
    assert!((va == vb) == same_all);
    assert!((va != vb) == !same_all);
}
