use minimal_lexical::number::Number;
use minimal_lexical::parse::verif_parse_number;

pub fn any_digits<const N: usize>() -> [u8; N] {
    // thorough tier: every digit symbolic.  quick tier (instances::FULL_SYMBOLIC == false): the first three and the
    // last five digits of each part are symbolic, the ones in between are an arbitrary but fixed non-zero digit
    // (the digit loops treat all positions uniformly; what matters for the cut logic are counts and the ends)
    let a: [u8; N] = kani::any();
    let mid: u8 = kani::any();
    kani::assume(b'1' <= mid && mid <= b'9');
    let mut out = a;
    let mut i = 0;
    while i < N {
        kani::assume(b'0' <= a[i] && a[i] <= b'9');
        if !crate::instances::FULL_SYMBOLIC && i >= 3 && i + 5 < N {
            out[i] = mid;
        }
        i += 1;
    }
    out
}

/// Reference: one pass over integer ++ fraction, written from the contract.
///   m = first min(s, 19) significant digits, t = (s > 19), q = clamp(e - nf + dropped)
pub fn reference<const NI: usize, const NF: usize>(int: &[u8; NI], frac: &[u8; NF], e: i32) -> (u64, i32, bool) {
    let mut m: u64 = 0;
    let mut sig: u32 = 0;
    let mut dropped: i64 = 0;
    let mut started = NI > 0;
    let mut i = 0;
    while i < NI + NF {
        let d = if i < NI { int[i] - b'0' } else { frac[i - NI] - b'0' };
        i += 1;
        if !started && d == 0 {
            continue;
        }
        started = true;
        if sig < 19 {
            m = m * 10 + d as u64;
            sig += 1;
        } else {
            dropped += 1;
        }
    }
    let q = e as i64 - NF as i64 + dropped;
    let q = if q > i32::MAX as i64 { i32::MAX } else if q < i32::MIN as i64 { i32::MIN } else { q as i32 };
    (m, q, dropped > 0)
}

/// O-PN on slice iterators.
pub fn contract<const NI: usize, const NF: usize, const Z: usize>() {
    let int: [u8; NI] = any_digits();
    let mut frac: [u8; NF] = any_digits();
    if NI > 0 {
        kani::assume(int[0] != b'0'); // documented precondition: no leading zeros in the integer part
    } else {
        // empty integer part: exactly Z leading fraction zeros (a symbolic count makes the position where the second
        // digit loop starts symbolic, which CBMC cannot finish; Z is enumerated instead)
        let mut z = 0;
        while z < Z && z < NF {
            frac[z] = b'0';
            z += 1;
        }
        if Z < NF {
            kani::assume(frac[Z] != b'0');
        }
    }
    let e: i32 = kani::any();
    let num: Number = verif_parse_number(int.iter(), frac.iter(), e);
    let (m, q, t) = reference(&int, &frac, e);
    assert!(num.mantissa == m);
    assert!(num.exponent == q);
    assert!(num.many_digits == t);
    assert!(num.mantissa < 10_000_000_000_000_000_000u64);
    kani::cover!(t, "opt:digits truncated");
    kani::cover!(NI == 0 && Z > 0 && m != 0, "opt:leading fraction zeros skipped");
}

/// O-PN relational (C10): the same digit sequence split at two different points, exponent compensated,
/// denotes the same number / interval: identical mantissa, flag and (unless saturated) exponent.
pub fn resplit<const N: usize, const A: usize, const B: usize, const NA: usize, const NB: usize>() {
    // N digits, first digit non-zero; split after A resp. B integer digits (NA = N - A, NB = N - B)
    let d: [u8; N] = any_digits();
    kani::assume(d[0] != b'0');
    let e: i32 = kani::any();
    kani::assume(-1_000_000_000 <= e && e <= 1_000_000_000); // compensation must not overflow i32
    let mut ia = [0u8; A];
    let mut fa = [0u8; NA];
    let mut ib = [0u8; B];
    let mut fb = [0u8; NB];
    let mut i = 0;
    while i < N {
        if i < A { ia[i] = d[i]; } else { fa[i - A] = d[i]; }
        if i < B { ib[i] = d[i]; } else { fb[i - B] = d[i]; }
        i += 1;
    }
    // value = D * 10^(e - NA) for the first split; second split gets exponent e - NA + NB
    let n1 = verif_parse_number(ia.iter(), fa.iter(), e);
    let n2 = verif_parse_number(ib.iter(), fb.iter(), e - NA as i32 + NB as i32);
    assert!(n1.mantissa == n2.mantissa);
    assert!(n1.many_digits == n2.many_digits);
    assert!(n1.exponent == n2.exponent);
}

/// Appending zeros to the fraction (C10): same denoted value; the flag may turn on (interval [m, m+1) still
/// contains the exact value m) but mantissa * 10^exponent is unchanged.
pub fn append_zeros<const NI: usize, const NF: usize, const Z: usize, const NFZ: usize>() {
    let int: [u8; NI] = any_digits();
    let frac: [u8; NF] = any_digits();
    if NI > 0 {
        kani::assume(int[0] != b'0');
    }
    let e: i32 = kani::any();
    let mut fz = [b'0'; NFZ];
    let mut i = 0;
    while i < NF {
        fz[i] = frac[i];
        i += 1;
    }
    let a = verif_parse_number(int.iter(), frac.iter(), e);
    let b = verif_parse_number(int.iter(), fz.iter(), e);
    if NI + NF <= 19 && NI + NFZ <= 19 {
        // both exact: a.m * 10^a.q == b.m * 10^b.q with b.q = a.q - Z unless saturated
        kani::assume(a.exponent > i32::MIN + 64 && a.exponent < i32::MAX - 64);
        assert!(!a.many_digits && !b.many_digits);
        assert!(b.exponent == a.exponent - Z as i32);
        let mut m = a.mantissa;
        let mut k = 0;
        while k < Z {
            m *= 10;
            k += 1;
        }
        assert!(b.mantissa == m);
    } else if NI + NF > 19 {
        // already truncated without the zeros: nothing changes
        kani::assume(a.exponent > i32::MIN + 64 && a.exponent < i32::MAX - 64);
        if a.many_digits || a.mantissa >= 1_000_000_000_000_000_000u64 {
            assert!(a.mantissa == b.mantissa && a.exponent == b.exponent);
        }
    }
}

/// C16: the same bytes through differently shaped cloneable iterators give the same Number.
#[derive(Clone)]
pub struct Cursor<'a> {
    pub data: &'a [u8],
    pub pos: usize,
}

impl<'a> Iterator for Cursor<'a> {
    type Item = &'a u8;
    fn next(&mut self) -> Option<&'a u8> {
        if self.pos < self.data.len() {
            let r = &self.data[self.pos];
            self.pos += 1;
            Some(r)
        } else {
            None
        }
    }
}

fn iter_inputs<const NI: usize, const NF: usize>() -> ([u8; NI], [u8; NF], i32) {
    let int: [u8; NI] = any_digits();
    let frac: [u8; NF] = any_digits();
    if NI > 0 {
        kani::assume(int[0] != b'0');
    }
    (int, frac, kani::any())
}

/// (a) custom iterator with its own cursor and the default size_hint
pub fn iter_cursor<const NI: usize, const NF: usize>() {
    let (int, frac, e) = iter_inputs::<NI, NF>();
    let base = verif_parse_number(int.iter(), frac.iter(), e);
    let c = verif_parse_number(Cursor { data: &int, pos: 0 }, Cursor { data: &frac, pos: 0 }, e);
    assert!(c == base);
}

/// (b) chain of two halves
pub fn iter_chain<const NI: usize, const NF: usize>() {
    let (int, frac, e) = iter_inputs::<NI, NF>();
    let base = verif_parse_number(int.iter(), frac.iter(), e);
    let k: usize = NI / 2; // concrete split point (a symbolic one multiplies the unrolled loops)
    let mut second = [0u8; NI]; // second half in a separate buffer
    let mut i = k;
    while i < NI {
        second[i - k] = int[i];
        i += 1;
    }
    let ch = verif_parse_number(int[..k].iter().chain(second[..NI - k].iter()), frac.iter(), e);
    assert!(ch == base);
}

/// (c) filter dropping a sentinel byte inserted into the integer digits (NI2 = NI + 1)
pub fn iter_filter<const NI: usize, const NF: usize, const NI2: usize>() {
    let (int, frac, e) = iter_inputs::<NI, NF>();
    let base = verif_parse_number(int.iter(), frac.iter(), e);
    let mut with = [b'_'; NI2];
    let p: usize = NI / 3;
    let mut i = 0;
    while i < NI {
        with[if i < p { i } else { i + 1 }] = int[i];
        i += 1;
    }
    let f = verif_parse_number(with.iter().filter(|&&b| b != b'_'), frac.iter(), e);
    assert!(f == base);
}

/// (d) empty integer part, Z leading fraction zeros, more than 19 digits: the FRACTION through a cursor, a chain and a
/// sentinel filter (the zero-skipping and the 20th-digit logic must not depend on the iterator's shape or addresses)
pub fn iter_fraction<const NF: usize, const Z: usize, const NF2: usize, const MODE: usize>() {
    // MODE 0: cursor, 1: chain, 2: filter (one extra run of the real code per harness keeps CBMC within budget)
    let mut frac: [u8; NF] = any_digits();
    let mut z = 0;
    while z < Z && z < NF {
        frac[z] = b'0';
        z += 1;
    }
    if Z < NF {
        kani::assume(frac[Z] != b'0');
    }
    let e: i32 = kani::any();
    let empty: [u8; 0] = [];
    let base = verif_parse_number(empty.iter(), frac.iter(), e);
    if MODE == 0 {
        let c = verif_parse_number(empty.iter(), Cursor { data: &frac, pos: 0 }, e);
        assert!(c == base);
    } else if MODE == 1 {
        // two SEPARATE buffers, split inside the run of leading zeros: the first significant digit lives in the second
        // buffer (a result that depends on addresses or contiguity must show up)
        let k: usize = if Z >= 1 { 1 } else { NF / 2 };
        let mut second = [0u8; NF];
        let mut i = k;
        while i < NF {
            second[i - k] = frac[i];
            i += 1;
        }
        let ch = verif_parse_number(empty.iter(), frac[..k].iter().chain(second[..NF - k].iter()), e);
        assert!(ch == base);
    } else {
        let mut with = [b'_'; NF2];
        let p: usize = 1;
        let mut i = 0;
        while i < NF {
            with[if i < p { i } else { i + 1 }] = frac[i];
            i += 1;
        }
        let f = verif_parse_number(empty.iter(), with.iter().filter(|&&b| b != b'_'), e);
        assert!(f == base);
    }
}

/// C08: arbitrary bytes (no digit assumption, leading/trailing zeros allowed): no memory-safety violation; a clean
/// panic (arithmetic overflow on a non-digit) is an accepted outcome and is filtered by check class in the runner.
pub fn any_bytes<const NI: usize, const NF: usize>() {
    let int: [u8; NI] = kani::any();
    let frac: [u8; NF] = kani::any();
    let e: i32 = kani::any();
    let _ = verif_parse_number(int.iter(), frac.iter(), e);
}
