//! O-SM: parse_mantissa issues exactly the multiply/add sequence that builds the first min(s, max) significant
//! digits in 19-digit chunks, plus one sticky "...1" digit iff a later digit is non-zero.  The two big-integer
//! operations are replaced by trace stubs (their own correctness is C12), so the check is about the digit loop:
//! chunking, the cut at `max`, leading-zero skipping, the sticky rule and the returned digit count.
use crate::pn::any_digits;
use minimal_lexical::bigint::{Limb, VecType};
use minimal_lexical::slow::parse_mantissa;

pub static mut T_KIND: [u8; 64] = [0; 64]; // 1 = mul_small, 2 = add_small
pub static mut T_VAL: [Limb; 64] = [0; 64];
pub static mut T_N: usize = 0;

pub fn mul_small_trace(_v: &mut VecType, y: Limb) -> Option<()> {
    unsafe {
        assert!(T_N < 64);
        T_KIND[T_N] = 1;
        T_VAL[T_N] = y;
        T_N += 1;
    }
    Some(())
}

pub fn add_small_trace(_v: &mut VecType, y: Limb) -> Option<()> {
    unsafe {
        assert!(T_N < 64);
        T_KIND[T_N] = 2;
        T_VAL[T_N] = y;
        T_N += 1;
    }
    Some(())
}

pub fn contract<const NI: usize, const NF: usize, const MAX: usize, const Z: usize>() {
    contract_impl::<NI, NF, MAX, Z, false>()
}

/// the same contract with both parts supplied by cursor iterators (default size_hint, own position)
pub fn contract_cursor<const NI: usize, const NF: usize, const MAX: usize, const Z: usize>() {
    contract_impl::<NI, NF, MAX, Z, true>()
}

fn contract_impl<const NI: usize, const NF: usize, const MAX: usize, const Z: usize, const CURSOR: bool>() {
    let int: [u8; NI] = any_digits();
    let mut frac: [u8; NF] = any_digits();
    if NI > 0 {
        kani::assume(int[0] != b'0');
        // non-empty integer part: the first Z fraction digits are zeros (they are significant digits here)
        let mut z = 0;
        while z < Z && z < NF {
            frac[z] = b'0';
            z += 1;
        }
    } else {
        // empty integer part: exactly Z leading fraction zeros (enumerated, see pn::contract)
        let mut z = 0;
        while z < Z && z < NF {
            frac[z] = b'0';
            z += 1;
        }
        if Z < NF {
            kani::assume(frac[Z] != b'0');
        }
    }
    unsafe {
        T_N = 0;
    }
    let (_big, count) = if CURSOR {
        parse_mantissa(crate::pn::Cursor { data: &int, pos: 0 }, crate::pn::Cursor { data: &frac, pos: 0 }, MAX)
    } else {
        parse_mantissa(int.iter(), frac.iter(), MAX)
    };

    // reference trace
    let mut e_kind = [0u8; 64];
    let mut e_val = [0 as Limb; 64];
    let mut n = 0usize;
    let mut started = NI > 0;
    let mut taken = 0usize; // significant digits consumed
    let mut chunk_len = 0u32;
    let mut chunk_val: Limb = 0;
    let mut sticky = false;
    let mut i = 0;
    while i < NI + NF {
        let d = if i < NI { int[i] - b'0' } else { frac[i - NI] - b'0' };
        i += 1;
        if !started && d == 0 {
            continue;
        }
        started = true;
        if taken < MAX {
            chunk_val = chunk_val * 10 + d as Limb;
            chunk_len += 1;
            taken += 1;
            if chunk_len == 19 {
                e_kind[n] = 1;
                e_val[n] = 10_000_000_000_000_000_000;
                e_kind[n + 1] = 2;
                e_val[n + 1] = chunk_val;
                n += 2;
                chunk_len = 0;
                chunk_val = 0;
            }
        } else if d != 0 {
            sticky = true;
        }
    }
    if chunk_len != 0 {
        const POW10: [Limb; 20] = [
            1, 10, 100, 1000, 10000, 100000, 1000000, 10000000, 100000000, 1000000000, 10000000000, 100000000000,
            1000000000000, 10000000000000, 100000000000000, 1000000000000000, 10000000000000000, 100000000000000000,
            1000000000000000000, 10000000000000000000,
        ];
        let p: Limb = POW10[chunk_len as usize];
        e_kind[n] = 1;
        e_val[n] = p;
        e_kind[n + 1] = 2;
        e_val[n + 1] = chunk_val;
        n += 2;
    }
    if sticky {
        e_kind[n] = 1;
        e_val[n] = 10;
        e_kind[n + 1] = 2;
        e_val[n + 1] = 1;
        n += 2;
    }
    unsafe {
        assert!(T_N == n);
        let mut j = 0;
        while j < n {
            assert!(T_KIND[j] == e_kind[j]);
            assert!(T_VAL[j] == e_val[j]);
            j += 1;
        }
    }
    assert!(count == taken + sticky as usize);
    kani::cover!(sticky, "opt:sticky digit appended");
    kani::cover!(taken == MAX && !sticky && NI + NF > MAX, "opt:cut with an all-zero tail");
}

/// C08: arbitrary bytes through the big-integer digit loop (table index of the chunk power, counters).
pub fn any_bytes<const NI: usize, const NF: usize, const MAX: usize>() {
    let int: [u8; NI] = kani::any();
    let frac: [u8; NF] = kani::any();
    let _ = parse_mantissa(int.iter(), frac.iter(), MAX);
}
