//! Kani harnesses for the digit loops: parse_number (O-PN, through the `verif` hook) and
//! parse_mantissa (O-SM).  Shapes (digit counts) are const generics, digit values symbolic.
#![allow(dead_code, unused_imports)]

#[cfg(kani)]
mod pn;
#[cfg(kani)]
mod pm;
#[cfg(kani)]
mod instances;
