//! O-SG: the slow-path glue (positive_digit_comp, negative_digit_comp, slow) on short operands with the REAL
//! big-integer code, against the rounding definition checked by cross-multiplication in u128.
#![allow(dead_code, unused_imports)]

#[cfg(kani)]
mod spec;
#[cfg(kani)]
mod glue;
#[cfg(kani)]
mod instances;
