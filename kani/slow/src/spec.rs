//! Rounding definition by cross-multiplication (no division): is the float `bits` the round-to-nearest-even
//! value of  num / 10^k * 10^j  (exactly one of k, j non-zero)?  All quantities are kept below 2^120.
pub struct Fmt {
    pub p1: u32,
    pub bias: i32,
    pub inf: u64,
}
pub const F64: Fmt = Fmt { p1: 52, bias: 1075, inf: 0x7FF };
pub const F32: Fmt = Fmt { p1: 23, bias: 150, inf: 0xFF };

pub fn pow10(k: u32) -> u128 {
    let mut p: u128 = 1;
    let mut i = 0;
    while i < k {
        p *= 10;
        i += 1;
    }
    p
}

/// sign of  num * 2^0  -  m2 * 2^e1 * den   as (-1, 0, 1);  requires the operands to stay below 2^127
fn cmp_scaled(num: u128, den: u128, m2: u128, e1: i32) -> i32 {
    let (l, r) = if e1 >= 0 { (num, (m2 * den) << e1) } else { (num << (-e1), m2 * den) };
    if l < r {
        -1
    } else if l > r {
        1
    } else {
        0
    }
}

/// Is `bits` (non-negative finite or infinite pattern of format f) == RN(num / den)?  num, den > 0.
pub fn is_rn(f: &Fmt, bits: u64, num: u128, den: u128) -> bool {
    let e = bits >> f.p1;
    let frac = bits & ((1u64 << f.p1) - 1);
    if e > f.inf {
        return false; // sign bit or garbage
    }
    if e == f.inf {
        // infinity: num/den >= (2^(p1+2) - 1) * 2^(inf - 2 - bias)
        return frac == 0 && cmp_scaled(num, den, (1u128 << (f.p1 + 2)) - 1, f.inf as i32 - 2 - f.bias) >= 0;
    }
    let m: u128 = frac as u128 + if e > 0 { 1u128 << f.p1 } else { 0 };
    let ex: i32 = (if e > 0 { e as i32 } else { 1 }) - f.bias;
    let even = m & 1 == 0;
    let up = cmp_scaled(num, den, 2 * m + 1, ex - 1);
    let upper_ok = up < 0 || (up == 0 && even);
    let lower_ok = if m == 0 {
        true
    } else if e > 1 && frac == 0 {
        cmp_scaled(num, den, 4 * m - 1, ex - 2) >= 0
    } else {
        let lo = cmp_scaled(num, den, 2 * m - 1, ex - 1);
        lo > 0 || (lo == 0 && even)
    };
    upper_ok && lower_ok
}

/// decline contract for an estimate (mant with bit 63 set, exp biased so that value = mant * 2^(exp - bias)):
/// with b = round_down(estimate):  lowerMid(b) <= num/den <= upperMid(succ(b)).  Normal range only.
pub fn estimate_ok(f: &Fmt, mant: u64, exp: i32, num: u128, den: u128) -> bool {
    let sh = 63 - f.p1; // 11 / 40
    if mant >> 63 != 1 || exp + (sh as i32) < 2 || exp + sh as i32 >= f.inf as i32 - 1 {
        return false;
    }
    let mb = (mant >> sh) as u128;
    let eb = exp + sh as i32 - f.bias;
    let lower = if mb == 1u128 << f.p1 {
        cmp_scaled(num, den, 4 * mb - 1, eb - 2) >= 0
    } else {
        cmp_scaled(num, den, 2 * mb - 1, eb - 1) >= 0
    };
    let upper = if mb + 1 == 1u128 << (f.p1 + 1) {
        cmp_scaled(num, den, (1u128 << (f.p1 + 2)) + 2, eb - 1) <= 0
    } else {
        cmp_scaled(num, den, 2 * mb + 3, eb - 1) <= 0
    };
    lower && upper
}
