//! O-SG with the big-integer operations replaced by trace stubs (their exactness is C12; the digit loop is O-SM):
//! what is checked here is the glue - which operations are issued with which exponents, how the results are
//! turned into a rounding direction, and the exponent arithmetic of `slow`.
use crate::spec::*;
use core::cmp::Ordering;
use minimal_lexical::bigint::{Bigint, Limb};
use minimal_lexical::extended_float::{extended_to_float, ExtendedFloat};
use minimal_lexical::num::Float;
use minimal_lexical::number::Number;
use minimal_lexical::parse::verif_parse_number;
use minimal_lexical::slow::{negative_digit_comp, positive_digit_comp, scientific_exponent, slow};

fn bits_of<F: Float>(fp: ExtendedFloat) -> u64 {
    extended_to_float::<F>(fp).to_bits()
}

// ---- trace stubs ---------------------------------------------------------------------------------
pub static mut P_N: usize = 0;
pub static mut P_BASE: [u32; 8] = [0; 8];
pub static mut P_EXP: [u32; 8] = [0; 8];
pub static mut P_FIRST: [Limb; 8] = [0; 8]; // least significant limb of the receiver (identifies the operand)

pub fn pow_trace(this: &mut Bigint, base: u32, exp: u32) -> Option<()> {
    unsafe {
        assert!(P_N < 8);
        P_BASE[P_N] = base;
        P_EXP[P_N] = exp;
        P_FIRST[P_N] = if this.data.len() > 0 { this.data[0] } else { 0 };
        P_N += 1;
    }
    Some(())
}

pub static mut HI_MANT: u64 = 0;
pub static mut HI_STICKY: bool = false;
pub static mut BITLEN: u32 = 0;
pub static mut CMP_RESULT: Ordering = Ordering::Equal;
pub static mut CMP_X0: Limb = 0;
pub static mut CMP_Y0: Limb = 0;
pub static mut CMP_CALLS: usize = 0;

pub fn hi64_trace(_this: &Bigint) -> (u64, bool) {
    unsafe { (HI_MANT, HI_STICKY) }
}

pub fn bit_length_trace(_this: &Bigint) -> u32 {
    unsafe { BITLEN }
}

pub fn compare_trace(x: &[Limb], y: &[Limb]) -> Ordering {
    unsafe {
        CMP_CALLS += 1;
        CMP_X0 = if x.len() > 0 { x[0] } else { 0 };
        CMP_Y0 = if y.len() > 0 { y[0] } else { 0 };
        CMP_RESULT
    }
}

/// textbook rounding of mant * 2^(exp - bias) (mant has bit 63 set) with an extra sticky flag for bits below mant
fn spec_round(mant: u64, sticky: bool, exp: i64, p1: u32, inf_field: u64) -> u64 {
    let drop_normal = 63 - p1;
    let field0 = exp + drop_normal as i64;
    let (m0, rem, half, base): (u64, u64, u64, u64) = if field0 >= 1 {
        let s = drop_normal;
        (mant >> s, mant & ((1u64 << s) - 1), 1u64 << (s - 1), ((field0 - 1) as u64) << p1)
    } else {
        let s = 1 - exp;
        if s >= 64 {
            (0, mant, 1u64 << 63, 0)
        } else {
            (mant >> s, mant & ((1u64 << s) - 1), 1u64 << (s - 1), 0)
        }
    };
    let up = rem > half || (rem == half && (sticky || (m0 & 1) == 1));
    if field0 >= 1 && field0 as u64 >= inf_field {
        return inf_field << p1;
    }
    let bits = base + m0 + up as u64;
    if (bits >> p1) >= inf_field {
        inf_field << p1
    } else {
        bits
    }
}

/// positive_digit_comp: issues pow(10, exponent) on the digits, then rounds (top 64 bits, bit length, sticky)
/// - whatever hi64 / bit_length report - to nearest even with the sticky flag breaking ties upward.
pub fn positive<const IS64: bool>() {
    let exponent: i32 = kani::any();
    kani::assume(0 <= exponent && exponent <= 400);
    let mant: u64 = kani::any();
    let sticky: bool = kani::any();
    let bl: u32 = kani::any();
    kani::assume(mant >> 63 == 1);
    kani::assume(64 <= bl && bl <= 3968);
    unsafe {
        P_N = 0;
        HI_MANT = mant;
        HI_STICKY = sticky;
        BITLEN = bl;
    }
    let big = Bigint::from_u64(4242);
    let (p1, bias, inf) = if IS64 { (52, 1075i64, 0x7FFu64) } else { (23, 150i64, 0xFFu64) };
    let fp = if IS64 { positive_digit_comp::<f64>(big, exponent) } else { positive_digit_comp::<f32>(big, exponent) };
    unsafe {
        assert!(P_N == 1 && P_BASE[0] == 10 && P_EXP[0] == exponent as u32 && P_FIRST[0] == 4242);
    }
    // value = mant * 2^(bl - 64) (+ sticky): biased exponent bl - 64 + bias
    let bits = if IS64 { bits_of::<f64>(fp) } else { bits_of::<f32>(fp) };
    assert!(bits == spec_round(mant, sticky, bl as i64 - 64 + bias, p1, inf));
    kani::cover!(sticky, "sticky tie-break input");
}

/// negative_digit_comp: b = round_down(estimate); compares  digits * 2^a  with  (2*b.mant + 1) * 5^k * 2^c  where the
/// exponents must be exactly k = -exponent and c - a = b+h's binary exponent + k; rounds the estimate up iff the
/// digits are larger (ties to even).
pub fn negative<const IS64: bool>() {
    let exponent: i32 = kani::any();
    kani::assume(-400 <= exponent && exponent < 0);
    let mant: u64 = kani::any();
    let exp: i32 = kani::any();
    kani::assume(mant >> 63 == 1);
    let (p1, bias, inf, sh) = if IS64 { (52u32, 1075i32, 0x7FFu64, 11i32) } else { (23u32, 150i32, 0xFFu64, 40i32) };
    kani::assume(-64 <= exp && exp <= 4000); // -64: round() is entered with shift 65 (clamped to 64): b = 0, result 0 or 1
    kani::assume(exp + sh < inf as i32 - 1);
    let ord: u8 = kani::any();
    kani::assume(ord < 3);
    unsafe {
        P_N = 0;
        CMP_CALLS = 0;
        CMP_RESULT = if ord == 0 { Ordering::Less } else if ord == 1 { Ordering::Equal } else { Ordering::Greater };
    }
    const REAL: Limb = 4242; // even marker: b+h's significand 2m+1 is always odd
    let big = Bigint::from_u64(REAL);
    let fp = ExtendedFloat { mant, exp };
    let out = if IS64 { negative_digit_comp::<f64>(big, fp, exponent) } else { negative_digit_comp::<f32>(big, fp, exponent) };
    // b: truncation of the estimate (textbook), as bit pattern
    let b_bits = crate::glue::spec_trunc(mant, exp as i64, p1, inf);
    let b_e = b_bits >> p1;
    let b_f = b_bits & ((1u64 << p1) - 1);
    let (bm, be) = if b_e == 0 { (b_f, 1 - bias) } else { (b_f + (1u64 << p1), b_e as i32 - bias) };
    let theor_m = 2 * bm + 1;
    let theor_e = be - 1;
    let k = (-exponent) as u32;
    let binexp = theor_e - exponent;
    unsafe {
        // first: theor.pow(5, k); then the power of two on the proper side
        assert!(P_N >= 1 && P_BASE[0] == 5 && P_EXP[0] == k && P_FIRST[0] == theor_m);
        if binexp > 0 {
            assert!(P_N == 2 && P_BASE[1] == 2 && P_EXP[1] == binexp as u32 && P_FIRST[1] == theor_m);
        } else if binexp < 0 {
            assert!(P_N == 2 && P_BASE[1] == 2 && P_EXP[1] == (-binexp) as u32 && P_FIRST[1] == REAL);
        } else {
            assert!(P_N == 1);
        }
        // the comparison is digits (left) against b+h (right)
        assert!(CMP_CALLS == 1 && CMP_X0 == REAL && CMP_Y0 == theor_m);
    }
    let up = ord == 2 || (ord == 1 && (b_bits & 1) == 1);
    let want = if b_bits >> p1 >= inf { inf << p1 } else { b_bits + up as u64 };
    let got = if IS64 { bits_of::<f64>(out) } else { bits_of::<f32>(out) };
    assert!(got == want);
    kani::cover!(b_e == 0, "subnormal b");
    kani::cover!(binexp < 0, "digits scaled by a power of two");
    kani::cover!(binexp > 0, "b+h scaled by a power of two");
}

pub fn spec_trunc(mant: u64, exp: i64, p1: u32, inf_field: u64) -> u64 {
    let drop_normal = 63 - p1;
    let field0 = exp + drop_normal as i64;
    if field0 >= 1 {
        if field0 as u64 >= inf_field {
            return inf_field << p1;
        }
        (((field0 - 1) as u64) << p1) + (mant >> drop_normal)
    } else {
        let s = 1 - exp;
        if s >= 64 {
            0
        } else {
            mant >> s
        }
    }
}

/// scientific_exponent: position of the leading digit.
pub fn sci_exp() {
    let m: u64 = kani::any();
    let e: i32 = kani::any();
    kani::assume(m != 0);
    kani::assume(-1_000_000_000 < e && e < 1_000_000_000);
    let num = Number { mantissa: m, exponent: e, many_digits: false };
    let s = scientific_exponent(&num);
    let mut d = 0i32;
    let mut p: u128 = 10;
    while p <= m as u128 {
        p *= 10;
        d += 1;
    }
    assert!(s == e + d);
}

/// scientific_exponent is a pure function: a second call is not influenced by the first (C16: no memo / static state)
pub fn sci_exp_twice() {
    let m1: u64 = kani::any();
    let e1: i32 = kani::any();
    let m2: u64 = kani::any();
    let e2: i32 = kani::any();
    kani::assume(m1 != 0 && m2 != 0);
    kani::assume(-1_000_000 < e1 && e1 < 1_000_000 && -1_000_000 < e2 && e2 < 1_000_000);
    let _ = scientific_exponent(&Number { mantissa: m1, exponent: e1, many_digits: false });
    let s = scientific_exponent(&Number { mantissa: m2, exponent: e2, many_digits: false });
    let mut d = 0i32;
    let mut p: u128 = 10;
    while p <= m2 as u128 {
        p *= 10;
        d += 1;
    }
    assert!(s == e2 + d);
}

// ---- slow(): exponent arithmetic and dispatch -------------------------------------------------------
pub static mut S_WHICH: u8 = 0; // 1 = positive, 2 = negative
pub static mut S_EXP: i32 = 0;
pub static mut S_CALLS: usize = 0;

pub fn positive_trace<F: Float>(_b: Bigint, exponent: i32) -> ExtendedFloat {
    unsafe {
        S_WHICH = 1;
        S_EXP = exponent;
        S_CALLS += 1;
    }
    ExtendedFloat { mant: 0, exp: 0 }
}

pub fn negative_trace<F: Float>(_b: Bigint, _fp: ExtendedFloat, exponent: i32) -> ExtendedFloat {
    unsafe {
        S_WHICH = 2;
        S_EXP = exponent;
        S_CALLS += 1;
    }
    ExtendedFloat { mant: 0, exp: 0 }
}

pub fn mul_small_nop(_v: &mut minimal_lexical::bigint::VecType, _y: Limb) -> Option<()> {
    Some(())
}

/// slow(): with D = the significant digits the digit loop retains (all of them here), the comparison stage must be
/// entered with the exponent X such that the input equals D * 10^X, and with the algorithm matching its sign.
pub fn slow_dispatch<const NI: usize, const NF: usize>() {
    let int: [u8; NI] = kani::any();
    let frac: [u8; NF] = kani::any();
    let mut i = 0;
    while i < NI + NF {
        let c = if i < NI { int[i] } else { frac[i - NI] };
        kani::assume(b'0' <= c && c <= b'9');
        i += 1;
    }
    if NI > 0 {
        kani::assume(int[0] != b'0');
    } else {
        // a zero significand never reaches the slow path
        let mut nz = false;
        let mut j = 0;
        while j < NF {
            nz |= frac[j] != b'0';
            j += 1;
        }
        kani::assume(nz);
    }
    let e: i32 = kani::any();
    kani::assume(-100_000 <= e && e <= 100_000);
    let number = verif_parse_number(int.iter(), frac.iter(), e);
    unsafe {
        S_CALLS = 0;
    }
    let fp = ExtendedFloat { mant: 1u64 << 63, exp: 0 };
    let _ = slow::<f64, _, _>(number, fp, int.iter(), frac.iter());
    unsafe {
        assert!(S_CALLS == 1);
        // all NI + NF digits are retained (far below MAX_DIGITS); leading fraction zeros are not digits of D but
        // do not move its last digit: the input is D * 10^(e - NF)
        assert!(S_EXP == e - NF as i32);
        assert!((S_WHICH == 1) == (S_EXP >= 0));
    }
}
