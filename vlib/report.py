"""Accumulates what a check run covered and turns it into exit code + evidence."""
import json
import os
import sys
import time

from . import common as C


class Report(object):
    def __init__(self, pid, tier, seed):
        self.pid, self.tier, self.seed = pid, tier, seed
        self.t0 = time.time()
        self.groups = []          # per obligation group summaries
        self.obligations = 0
        self.discharged = 0
        self.unknown = []         # descriptions of undecided obligations
        self.accepted_unknown = []  # undecided, listed in undecided_baseline.json (outside the claim)
        self.errors = []
        self.violations = []      # dicts: {desc, replay, known}
        self.samples = []
        self.solver_s = 0.0
        self.queries = 0
        self.functions = set()
        self.bounds = []
        self.assumptions = []
        self.trusted = set()
        self.extra = {}
        self.known = C.load_known()

    # ---- recording ---------------------------------------------------------
    def group(self, name, n, discharged, detail=None):
        self.groups.append({"group": name, "obligations": n, "discharged": discharged, "detail": detail or {}})
        self.obligations += n
        self.discharged += discharged

    def sample(self, s):
        # reservoir sample of the obligations discharged in this run
        import random
        self._seen = getattr(self, "_seen", 0) + 1
        if len(self.samples) < 12:
            self.samples.append(s)
        else:
            j = random.Random(self.seed * 7919 + self._seen).randrange(self._seen)
            if j < 12:
                self.samples[j] = s

    def violation(self, desc, replay_payload, role):
        """A confirmed (replayed) violation.  role: dict used to match known findings."""
        for f in self.known.get("findings", []):
            if f.get("property") in (self.pid, "*") or self.pid in f.get("properties", []):
                if all(role.get(k) == v for k, v in f.get("role", {}).items()):
                    self.violations.append({"desc": desc, "known": f.get("id", "?"), "what": f.get("what", desc)})
                    return
        n_new = len([v for v in self.violations if not v.get("known")])
        if n_new >= 25:
            # enough witnesses written: further ones are counted, their replay files are not kept
            self.violations.append({"desc": desc, "replay": self.violations[-1].get("replay"), "known": None, "extra": True})
            return
        path = C.write_replay(self.pid, "%d" % (n_new + 1), replay_payload)
        self.violations.append({"desc": desc, "replay": path, "known": None})

    def undecided(self, desc, role=None):
        base = load_undecided()
        role = role or {}
        for u in base:
            if all(role.get(k) == v for k, v in u.get("role", {}).items()) and u.get("role"):
                self.accepted_unknown.append(desc)
                return
        self.unknown.append(desc)

    def error(self, desc):
        self.errors.append(desc)

    # ---- finishing ---------------------------------------------------------
    def finish(self, level, explanation):
        wall = time.time() - self.t0
        new_viol = [v for v in self.violations if not v.get("known")]
        known_viol = [v for v in self.violations if v.get("known")]
        seen = set()
        for v in known_viol:
            if v["known"] not in seen:
                seen.add(v["known"])
                print("KNOWN-FINDING: property=%s %s" % (self.pid, v["what"]))
        for v in new_viol:
            if v.get("extra"):
                continue
            print("VIOLATION property=%s replay=%s" % (self.pid, v["replay"]))
            print("  " + v["desc"])
        if any(v.get("extra") for v in new_viol):
            print("  (+%d further violations of the same check not listed)" % len([v for v in new_viol if v.get("extra")]))
        for u in self.unknown[:20]:
            print("INCONCLUSIVE property=%s %s" % (self.pid, u))
        for e in self.errors[:20]:
            print("BROKEN property=%s %s" % (self.pid, e))
        coverage = {
            "obligations": self.obligations,
            "discharged": self.discharged,
            "checker_cmd": "./check %s --tier %s" % (self.pid, self.tier),
            "trusted_base": sorted(self.trusted),
            "explanation": explanation,
            "evaluations": max(self.obligations, 1),
            "distinct_nontrivial": max(self.discharged, 0),
            "rule": "one evaluation = one solver obligation (a contract negated over a fully symbolic input class); "
                    "counted as non-trivial when it was discharged (unsat / Kani SUCCESSFUL) in this run",
            "samples": self.samples or ["(no obligations ran)"],
            "groups": self.groups,
            "functions_encoded": sorted(self.functions),
            "bounds": self.bounds,
            "solver_queries": self.queries,
            "solver_seconds": round(self.solver_s, 2),
            "undecided": self.unknown[:50],
            "undecided_outside_claim": self.accepted_unknown[:50],
            "undecided_outside_claim_count": len(self.accepted_unknown),
            "errors": self.errors[:20],
            "known_findings_hit": sorted(seen),
        }
        coverage.update(self.extra)
        C.write_evidence(self.pid, self.tier, self.seed, level, coverage, self.assumptions, wall, len(new_viol))
        if new_viol:
            # a replayed violation outranks BROKEN lines (a change that breaks the property can also make a
            # vacuity witness unsatisfiable)
            code = C.EXIT_VIOLATION
        elif self.errors:
            code = C.EXIT_BROKEN
        elif self.unknown:
            code = C.EXIT_INCONCLUSIVE
        else:
            code = C.EXIT_OK
        print("%s %s tier=%s: %d/%d obligations discharged, %d undecided (+%d outside claim), %d violations (%d known), "
              "%d errors, %.0fs wall, %.0fs solver" % (
                  self.pid, {0: "PASS", 1: "VIOLATION", 2: "INCONCLUSIVE", 3: "BROKEN"}[code], self.tier,
                  self.discharged, self.obligations, len(self.unknown), len(self.accepted_unknown),
                  len(self.violations), len(known_viol), len(self.errors), wall, self.solver_s))
        return code


_UND = None


def load_undecided():
    global _UND
    if _UND is None:
        p = os.path.join(C.VERIF, "undecided_baseline.json")
        _UND = json.load(open(p)).get("undecided", []) if os.path.exists(p) else []
    return _UND
