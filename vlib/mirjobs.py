"""Solver obligations over the MIR of the scalar kernels (engine E1).

Every job is a picklable tuple executed in a worker process: it symbolically executes the real MIR of
one function for one (format, decimal exponent, leading-zero class, ...) with the 64-bit significand
fully symbolic, builds the negated contract, and asks the solver portfolio.  Result dicts carry
status in {'holds', 'violated', 'unknown', 'error'}.
"""
import os
import random
import time
import traceback

from mir2smt import terms as T
from mir2smt import emit, solve, specs
from mir2smt.mirparse import Mir
from mir2smt.symex import Executor, VInt, VBool, VTuple, VRef, Boxed, Unsupported

_MIR_CACHE = {}


def get_mir(path):
    m = _MIR_CACHE.get(path)
    if m is None:
        m = Mir(open(path).read())
        _MIR_CACHE[path] = m
    return m


def _i32(v):
    return VInt(T.const(v), 32, True)


def _u64(t):
    return VInt(t, 64, False)


SOLVER_ORDER = ("z3new", "cvc5", "z3")
BELL_ORDER = ("cvc5", "z3new", "z3")


def decide(bads, timeout, leaf_fallback=True, order=None, leaf_first=False):
    """bads: list of boolean terms, each 'path condition AND negated contract'.  All must be unsat.

    Strategy: one disjunctive query first; on unknown, one query per disjunct with the whole
    portfolio.  Returns (status, model, stats)."""
    B = T.Builder()
    order = order or SOLVER_ORDER
    stats = {"queries": 0, "solver_s": 0.0, "solvers": {}, "fallback": False}
    bads = [b for b in bads if b is not T.FALSE]
    if not bads:
        stats["trivial"] = True
        return "holds", None, stats
    if not leaf_first:
        text, _ = emit.emit_int([B.disj(bads)])
        v, model, who, dt = solve.solve(text, timeout, order=order[:1])
        stats["queries"] += 1
        stats["solver_s"] += dt
        stats["solvers"][who] = stats["solvers"].get(who, 0) + 1
        if v == "unsat":
            return "holds", None, stats
        if v == "sat":
            return "violated", model, stats
        if not leaf_fallback:
            return "unknown", None, stats
        stats["fallback"] = True
    worst = "holds"
    for b in bads:
        text, _ = emit.emit_int([b])
        v, model, who, dt = solve.solve(text, timeout, order=order)
        stats["queries"] += 1
        stats["solver_s"] += dt
        stats["solvers"][who] = stats["solvers"].get(who, 0) + 1
        if v == "sat":
            return "violated", model, stats
        if v != "unsat":
            # last resort: exact bit-vector encoding of the same disjunct
            try:
                tb, _ = emit.emit_bv([b])
                v2, model2, who2, dt2 = solve.solve(tb, timeout, order=("z3new",))
                stats["queries"] += 1
                stats["solver_s"] += dt2
                stats["solvers"]["bv:" + who2] = stats["solvers"].get("bv:" + who2, 0) + 1
                if v2 == "sat":
                    return "violated", {k: solve.bv_signed(x) for k, x in model2.items()}, stats
                if v2 == "unsat":
                    continue
            except T.Unsupported:
                pass
            worst = "unknown"
    return worst, None, stats


def sample_values(lo, hi, rng, n=6):
    vals = {lo, hi, (lo + hi) // 2}
    for _ in range(n):
        vals.add(rng.randint(lo, hi))
    return sorted(vals)


def partition_check(leaves, envs):
    """The leaves' path conditions must partition the input space: for each sample environment
    exactly one leaf is enabled.  Returns (ok, message)."""
    for env in envs:
        hits = [i for i, lf in enumerate(leaves) if T.evaluate(lf.pc_term(), env)]
        if len(hits) != 1:
            return False, "sample %r enables %d leaves %r" % (env, len(hits), hits[:5])
    return True, ""


# --------------------------------------------------------------------------
# decline contract (DESIGN O-MD): what `slow` needs from a declined extended float
# --------------------------------------------------------------------------

def decline_contract(B, fmt, w_lo, w_hi, q, mant, exp_unbiased, strict_debug=False):
    """Boolean term: the normalised estimate (mant, exp) [value mant * 2^(exp - bias)] is usable by the
    slow path for every real in [w_lo, w_hi] * 10^q:
      - bit 63 of mant set, exp >= -64 (round()'s shift <= 65),
      - with b = round_down(estimate):  lowerMid(b) <= w_lo*10^q  and  w_hi*10^q <= upperMid(succ(b)).
    exp is case-split over its (small) range."""
    F = specs.FORMATS[fmt]
    p1, bias, inf = F["p1"], F["bias"], F["inf"]
    shift_n = 64 - p1 - 1
    elo, ehi = B.rng(exp_unbiased)
    if ehi - elo > 64:
        raise T.Unsupported("decline exponent range [%d,%d]" % (elo, ehi))
    cases = []
    for e in range(elo, ehi + 1):
        here = B.eq(exp_unbiased, T.const(e))
        if here is T.FALSE:
            continue
        if e < -64 and strict_debug:
            # round()'s shift would exceed 65: `debug_assert!(shift <= 65)` fails in debug builds
            cases.append(B.band_bool(here, T.FALSE))
            continue
        if e + shift_n >= inf:
            # round() turns such an estimate into +infinity whatever the digit comparison says:
            # usable iff every value in range really rounds to +infinity
            lhs, rhs = specs.scaled_cmp_sides(B, w_lo, q, T.const((1 << (p1 + 2)) - 1), inf - 2 - bias)
            cases.append(B.band_bool(here, B.band_bool(B.ge(mant, T.const(1 << 63)), B.ge(lhs, rhs))))
            continue
        if -e >= shift_n:
            sh = -e + 1
            if sh > 64:
                sh = 64
            Mb = B.div(mant, 1 << sh) if sh < 64 else T.const(0)
            Eb = 1 - bias
            field_gt1 = False
        else:
            sh = shift_n
            Mb = B.div(mant, 1 << sh)
            Eb = e + sh - bias
            field_gt1 = (e + sh) > 1
        # lower midpoint of b
        if field_gt1:
            at_bnd = B.eq(Mb, T.const(1 << p1))
            l1, r1 = specs.scaled_cmp_sides(B, w_lo, q, B.sub(B.mul(Mb, T.const(4)), T.const(1)), Eb - 2)
            l2, r2 = specs.scaled_cmp_sides(B, w_lo, q, B.sub(B.mul(Mb, T.const(2)), T.const(1)), Eb - 1)
            lower = B.bor_bool(B.band_bool(at_bnd, B.ge(l1, r1)), B.band_bool(B.bnot(at_bnd), B.ge(l2, r2)))
        else:
            l2, r2 = specs.scaled_cmp_sides(B, w_lo, q, B.sub(B.mul(Mb, T.const(2)), T.const(1)), Eb - 1)
            lower = B.bor_bool(B.eq(Mb, T.const(0)), B.ge(l2, r2))
        # upper midpoint of succ(b): (2(Mb+1)+1) * 2^(Eb-1), or (2^(p1+2)+2) * 2^(Eb-1) when succ(b) opens a binade
        top = B.eq(B.add(Mb, T.const(1)), T.const(1 << (p1 + 1)))
        u1, v1 = specs.scaled_cmp_sides(B, w_hi, q, B.add(B.mul(Mb, T.const(2)), T.const(3)), Eb - 1)
        u2, v2 = specs.scaled_cmp_sides(B, w_hi, q, T.const((1 << (p1 + 2)) + 2), Eb - 1)
        upper = B.bor_bool(B.band_bool(top, B.le(u2, v2)), B.band_bool(B.bnot(top), B.le(u1, v1)))
        ok = B.band_bool(B.ge(mant, T.const(1 << 63)), B.band_bool(lower, upper))
        cases.append(B.band_bool(here, ok))
    return B.disj(cases)


# --------------------------------------------------------------------------
# Eisel-Lemire
# --------------------------------------------------------------------------

def invalid_fp(ex):
    v = ex.const_item("<F as num::Float>::INVALID_FP")
    return T.evaluate(v.t, {})


def job_lemire_cf(args):
    """compute_float::<F>(q, w) for all w with leading_zeros(w) == lz:
       definite => RN(w*10^q);  declined => decline contract for V = w*10^q;  no panic / UB leaf reachable."""
    (mirpath, fmt, q, lz, timeout, seed) = args[:6]
    strict = bool(args[6]) if len(args) > 6 else False
    t0 = time.time()
    res = {"job": "lemire_cf", "fmt": fmt, "q": q, "lz": lz, "strict_debug": strict}
    try:
        T.reset()
        ex = Executor(get_mir(mirpath), fmt)
        inv = invalid_fp(ex)
        wlo, whi = 1 << (63 - lz), (1 << (64 - lz)) - 1
        w = T.var("w", wlo, whi)
        leaves = ex.call("compute_float", [_i32(q), _u64(w)])
        bads = []
        debug_bads = []
        kinds = {"definite": 0, "declined": 0, "panic": 0}
        for lf in leaves:
            B = lf.B
            if lf.kind != "return":
                kinds["panic"] += 1
                bads.append(lf.pc_term())
                continue
            mant, exp = lf.value.items[0].t, lf.value.items[1].t
            definite = B.ge(exp, T.const(0))
            conds = []
            if definite is not T.FALSE:
                kinds["definite"] += 1
                conds.append(B.band_bool(definite, B.bnot(specs.rn_extended(B, fmt, w, q, mant, exp))))
            if definite is not T.TRUE:
                kinds["declined"] += 1
                ue = B.sub(exp, T.const(inv))
                conds.append(B.band_bool(B.bnot(definite),
                                         B.bnot(decline_contract(B, fmt, w, w, q, mant, ue, False))))
                if strict:
                    # debug builds: slow() -> round() asserts shift = 1 - exp <= 65; a declined estimate below that is only
                    # produced by the all-ones fallback leaf, whose reachability is a separate (number-theoretic) question
                    dbg = B.band_bool(B.bnot(definite), B.lt(ue, T.const(-64)))
                    if dbg is not T.FALSE:
                        debug_bads.append(lf.guarded(dbg))
            bads.append(lf.guarded(B.disj(conds)))
        rng = random.Random(seed * 1000003 + q * 131 + lz)
        ok, msg = partition_check(leaves, [{"w": v} for v in sample_values(wlo, whi, rng)])
        if not ok:
            res.update(status="error", detail="path partition check failed: " + msg)
            return res
        status, model, stats = decide(bads, timeout)
        res.update(status=status, leaves=len(leaves), kinds=kinds, stats=stats, paths=ex.stats["paths"])
        if model:
            res["model"] = {"w": model.get("w")}
        if debug_bads:
            st2, m2, stats2 = decide(debug_bads, 5, leaf_fallback=False)
            res["debug_shift"] = st2
            res["debug_shift_leaves"] = len(debug_bads)
            if m2:
                res["debug_shift_model"] = {"w": m2.get("w")}
            stats["queries"] += stats2["queries"]
            stats["solver_s"] += stats2["solver_s"]
    except Exception as e:
        res.update(status="error", detail="%s: %s" % (type(e).__name__, e), tb=traceback.format_exc()[-1500:])
    res["wall_s"] = time.time() - t0
    return res


def job_lemire_ce(args):
    """compute_error::<F>(q, w): the declined estimate satisfies the decline contract for every real in
    [w, w+1] * 10^q (this is what lemire() hands to the slow path when digits were truncated)."""
    (mirpath, fmt, q, lz, timeout, seed) = args
    t0 = time.time()
    res = {"job": "lemire_ce", "fmt": fmt, "q": q, "lz": lz}
    try:
        T.reset()
        ex = Executor(get_mir(mirpath), fmt)
        inv = invalid_fp(ex)
        # lemire() calls compute_error only when digits were truncated, i.e. (contract of parse_number)
        # for 19-digit significands
        wlo, whi = max(1 << (63 - lz), 10 ** 18), min((1 << (64 - lz)) - 1, 10 ** 19 - 1)
        if whi < wlo:
            res.update(status="holds", leaves=0, stats={"trivial": True, "queries": 0, "solver_s": 0.0, "solvers": {}})
            res["wall_s"] = time.time() - t0
            return res
        w = T.var("w", wlo, whi)
        leaves = ex.call("compute_error", [_i32(q), _u64(w)])
        bads = []
        for lf in leaves:
            B = lf.B
            if lf.kind != "return":
                bads.append(lf.pc_term())
                continue
            mant, exp = lf.value.items[0].t, lf.value.items[1].t
            ue = B.sub(exp, T.const(inv))
            w1 = B.add(w, T.const(1))
            bads.append(lf.guarded(B.bnot(B.band_bool(B.lt(exp, T.const(0)),
                                                      decline_contract(B, fmt, w, w1, q, mant, ue)))))
        status, model, stats = decide(bads, timeout)
        res.update(status=status, leaves=len(leaves), stats=stats)
        if model:
            res["model"] = {"w": model.get("w")}
    except Exception as e:
        res.update(status="error", detail="%s: %s" % (type(e).__name__, e), tb=traceback.format_exc()[-1500:])
    res["wall_s"] = time.time() - t0
    return res


def job_lemire_early(args):
    """Early outs of compute_float with the decimal exponent SYMBOLIC:
       q < SMALLEST_POWER_OF_TEN  => (0,0);  q > LARGEST_POWER_OF_TEN and w != 0 => (0, INFINITE_POWER);  w == 0 => (0,0).
    Together with the concrete boundary queries (q = SMALLEST-1, LARGEST+1) and monotonicity of RN in q this
    covers every i32 exponent."""
    (mirpath, fmt, timeout) = args
    t0 = time.time()
    res = {"job": "lemire_early", "fmt": fmt}
    try:
        T.reset()
        ex = Executor(get_mir(mirpath), fmt)
        F = specs.FORMATS[fmt]
        small = T.evaluate(ex.const_item("<F as num::Float>::SMALLEST_POWER_OF_TEN").t, {})
        large = T.evaluate(ex.const_item("<F as num::Float>::LARGEST_POWER_OF_TEN").t, {})
        bads = []
        sub = []
        # (a) q below the table, any w
        q = T.var("q", -(1 << 31), small - 1)
        w = T.var("w", 0, (1 << 64) - 1)
        for lf in ex.call("compute_float", [VInt(q, 32, True), _u64(w)]):
            B = lf.B
            if lf.kind != "return":
                bads.append(lf.pc_term())
                continue
            mant, exp = lf.value.items[0].t, lf.value.items[1].t
            bads.append(lf.guarded(B.bnot(B.band_bool(B.eq(mant, T.const(0)), B.eq(exp, T.const(0))))))
        # (b) q above the table, w != 0
        q2 = T.var("q", large + 1, (1 << 31) - 1)
        w2 = T.var("w", 1, (1 << 64) - 1)
        for lf in ex.call("compute_float", [VInt(q2, 32, True), _u64(w2)]):
            B = lf.B
            if lf.kind != "return":
                bads.append(lf.pc_term())
                continue
            mant, exp = lf.value.items[0].t, lf.value.items[1].t
            bads.append(lf.guarded(B.bnot(B.band_bool(B.eq(mant, T.const(0)), B.eq(exp, T.const(F["inf"]))))))
        # (c) w == 0, any q
        q3 = T.var("q", -(1 << 31), (1 << 31) - 1)
        for lf in ex.call("compute_float", [VInt(q3, 32, True), _u64(T.const(0))]):
            B = lf.B
            if lf.kind != "return":
                bads.append(lf.pc_term())
                continue
            mant, exp = lf.value.items[0].t, lf.value.items[1].t
            bads.append(lf.guarded(B.bnot(B.band_bool(B.eq(mant, T.const(0)), B.eq(exp, T.const(0))))))
        # (d) the boundary facts that make the early outs correct, as ground arithmetic:
        #     (2^64 - 1) * 10^(small-1) <= 2^-(bias) / 2  [rounds to zero]   and   10^(large+1) >= inf threshold
        B = T.Builder()
        lhs, rhs = specs.scaled_cmp_sides(B, T.const((1 << 64) - 1), small - 1, T.const(1), 1 - F["bias"] - 1)
        zero_ok = B.le(lhs, rhs)
        lhs, rhs = specs.scaled_cmp_sides(B, T.const(1), large + 1, T.const((1 << (F["p1"] + 2)) - 1), F["inf"] - 2 - F["bias"])
        inf_ok = B.ge(lhs, rhs)
        if zero_ok is not T.TRUE or inf_ok is not T.TRUE:
            res.update(status="violated", detail="early-out thresholds SMALLEST=%d LARGEST=%d are not sound" % (small, large),
                       model={"small": small, "large": large})
            res["wall_s"] = time.time() - t0
            return res
        status, model, stats = decide(bads, timeout)
        res.update(status=status, stats=stats, small=small, large=large)
        if model:
            res["model"] = model
    except Exception as e:
        res.update(status="error", detail="%s: %s" % (type(e).__name__, e), tb=traceback.format_exc()[-1500:])
    res["wall_s"] = time.time() - t0
    return res


def job_lemire_glue(args):
    """lemire(num) with compute_float / compute_error replaced by uninterpreted results:
         definite result  => equals compute_float(q, w) and, if many_digits, also compute_float(q, w+1);
         declined result  => it is compute_float(q, w) itself (declined) or compute_error(q, w)."""
    (mirpath, fmt, timeout) = args
    t0 = time.time()
    res = {"job": "lemire_glue", "fmt": fmt}
    try:
        T.reset()
        ex = Executor(get_mir(mirpath), fmt)
        calls = []

        def mkfp(tag):
            return VTuple([_u64(T.var(tag + "_m", 0, (1 << 64) - 1)),
                           VInt(T.var(tag + "_e", -(1 << 31), (1 << 31) - 1), 32, True)], "ExtendedFloat")

        def stub_cf(exe, st, a):
            i = len([c for c in st.log if c[0] == "cf"])
            v = mkfp("cf%d" % i)
            st.log.append(("cf", a[0].t, a[1].t, v))
            return v

        def stub_ce(exe, st, a):
            v = mkfp("ce")
            st.log.append(("ce", a[0].t, a[1].t, v))
            return v

        ex.stubs["compute_float"] = stub_cf
        ex.stubs["compute_error"] = stub_ce
        q = T.var("q", -(1 << 31), (1 << 31) - 1)
        w = T.var("w", 0, (1 << 64) - 2)
        many = T.boolvar("many")
        num = VTuple([VInt(q, 32, True), _u64(w), VBool(many)], "Number")
        leaves = ex.call("lemire", [Boxed(num)])
        bads = []
        for lf in leaves:
            B = lf.B
            if lf.kind != "return":
                bads.append(lf.pc_term())
                continue
            mant, exp = lf.value.items[0].t, lf.value.items[1].t
            cfs = [c for c in lf.log if c[0] == "cf"]
            ces = [c for c in lf.log if c[0] == "ce"]
            if not cfs or cfs[0][1] is not q or cfs[0][2] is not w:
                res.update(status="violated", detail="first call is not compute_float(q, w): %r" % (cfs[:1],))
                res["wall_s"] = time.time() - t0
                return res
            same = lambda v: B.band_bool(B.eq(mant, v.items[0].t), B.eq(exp, v.items[1].t))
            definite = B.ge(exp, T.const(0))
            ok_def = same(cfs[0][3])
            # when many: a second call with (q, w+1) must exist and agree
            if len(cfs) >= 2:
                second_ok = B.band_bool(B.eq(cfs[1][1], q), B.eq(cfs[1][2], B.add(w, T.const(1))))
                agree = B.band_bool(second_ok, same(cfs[1][3]))
            else:
                agree = T.FALSE
            ok_def = B.band_bool(ok_def, B.bor_bool(B.bnot(many), agree))
            ok_dec = same(cfs[0][3])
            if ces:
                ok_ce = B.band_bool(B.band_bool(B.eq(ces[0][1], q), B.eq(ces[0][2], w)), same(ces[0][3]))
                ok_dec = B.bor_bool(ok_dec, ok_ce)
            ok = B.bor_bool(B.band_bool(definite, ok_def), B.band_bool(B.bnot(definite), ok_dec))
            # compute_error's contract says its result is always declined: assume that of the stub
            assume = T.TRUE
            for c in ces:
                assume = B.band_bool(assume, B.lt(c[3].items[1].t, T.const(0)))
            bads.append(lf.guarded(B.band_bool(assume, B.bnot(ok))))
        status, model, stats = decide(bads, timeout)
        res.update(status=status, leaves=len(leaves), stats=stats)
        if model:
            res["model"] = model
    except Exception as e:
        res.update(status="error", detail="%s: %s" % (type(e).__name__, e), tb=traceback.format_exc()[-1500:])
    res["wall_s"] = time.time() - t0
    return res




# --------------------------------------------------------------------------
# Bellerophon (feature `compact`)
# --------------------------------------------------------------------------

_MUL_SUMMARY_OK = {}


def mul_summary_valid(mirpath, fmt="f64"):
    """Prove, on the current MIR, that bellerophon::mul(x, y).mant equals
         floor((x*y + 2^63 - ((x mod 2^32)*(y mod 2^32) mod 2^32)) / 2^64)   and  .exp = x.exp + y.exp + 64
    for all 64-bit x, y (the four 32x32 partial products are generalised to arbitrary integers in range,
    which over-approximates them).  If the proof fails the summary is not used."""
    if mirpath in _MUL_SUMMARY_OK:
        return _MUL_SUMMARY_OK[mirpath]
    ok = False
    try:
        T.reset()
        ex = Executor(get_mir(mirpath), fmt)
        x, y = T.var("x", 0, (1 << 64) - 1), T.var("y", 0, (1 << 64) - 1)
        xe, ye = T.var("xe", -40000, 40000), T.var("ye", -40000, 40000)
        fx = VTuple([_u64(x), VInt(xe, 32, True)], "ExtendedFloat")
        fy = VTuple([_u64(y), VInt(ye, 32, True)], "ExtendedFloat")
        body = ex.mir.items.get("bellerophon::mul") or ex.mir.items.get("mul")
        leaves = ex.call(body.name, [Boxed(fx), Boxed(fy)])
        bads = []
        for lf in leaves:
            if lf.kind != "return":
                # debug-assertion builds: mul() may only panic when an operand has no bit above 2^32
                # (its two debug_assert!s); the call sites are then obliged to exclude that (see _mul_stub)
                Bp = T.Builder()
                pre_violated = Bp.bor_bool(Bp.lt(x, T.const(1 << 32)), Bp.lt(y, T.const(1 << 32)))
                bads.append(Bp.band_bool(lf.pc_term(), Bp.bnot(pre_violated)))
                continue
            B = lf.B
            m, e = lf.value.items[0].t, lf.value.items[1].t
            x1, x0 = B.div(x, 1 << 32), B.mod(x, 1 << 32)
            y1, y0 = B.div(y, 1 << 32), B.mod(y, 1 << 32)
            p11, p10, p01, p00 = B.mul(x1, y1), B.mul(x1, y0), B.mul(x0, y1), B.mul(x0, y0)
            full = B.add(B.add(B.mul(p11, T.const(1 << 64)), B.mul(B.add(p10, p01), T.const(1 << 32))), p00)
            summ = B.div(B.sub(B.add(full, T.const(1 << 63)), B.mod(p00, 1 << 32)), 1 << 64)
            good = B.band_bool(B.eq(m, summ), B.eq(e, B.add(B.add(xe, ye), T.const(64))))
            bads.append(lf.guarded(B.bnot(good)))
        text, _ = emit.emit_int([T.Builder().disj(bads)], abstract_nonlinear=True)
        v, _m, _who, _dt = solve.solve(text, 60, order=("z3new", "cvc5"))
        ok = (v == "unsat") and len(leaves) >= 1
    except Exception:
        ok = False
    _MUL_SUMMARY_OK[mirpath] = ok
    return ok


def _mul_stub(exe, st, a):
    """Summary of bellerophon::mul (validated by mul_summary_valid on the same MIR)."""
    B = st.B
    fx = exe._get(st, a[0].frame, a[0].local, list(a[0].path), a[0].const)
    fy = exe._get(st, a[1].frame, a[1].local, list(a[1].path), a[1].const)
    x, y = fx.items[0].t, fy.items[0].t
    st.log.append(("mul_pre", x, y))
    p00 = B.mul(B.mod(x, 1 << 32), B.mod(y, 1 << 32))
    r = B.mod(p00, 1 << 32)
    m = B.div(B.sub(B.add(B.mul(x, y), T.const(1 << 63)), r), 1 << 64)
    e = B.add(B.add(fx.items[1].t, fy.items[1].t), T.const(64))
    return VTuple([_u64(B.wrap(m, 64, False)), VInt(B.wrap(e, 32, True), 32, True)], "ExtendedFloat")


def job_bell(args):
    """bellerophon::<F>(&Number{q, w, many}) for all w with leading_zeros(w) == lz (compact MIR):
       definite => RN(w*10^q) and, if many, also RN((w+1)*10^q);
       declined => decline contract for every real in [w, w+many] * 10^q;  no panic leaf reachable.
    `wmax`: optional upper bound on w (e.g. 10^19 - 1 for what parse_number can produce)."""
    (mirpath, fmt, q, lz, many, timeout, seed) = args[:7]
    wmax = args[7] if len(args) > 7 else None
    strict = bool(args[8]) if len(args) > 8 else False
    t0 = time.time()
    res = {"job": "bell", "fmt": fmt, "q": q, "lz": lz, "many": many}
    try:
        T.reset()
        ex = Executor(get_mir(mirpath), fmt)
        inv = invalid_fp(ex)
        wlo, whi = 1 << (63 - lz), (1 << (64 - lz)) - 1
        if many:
            whi = min(whi, (1 << 64) - 2)
        if wmax is not None:
            whi = min(whi, wmax)
        if whi < wlo:
            res.update(status="holds", leaves=0, stats={"trivial": True, "queries": 0, "solver_s": 0.0, "solvers": {}})
            res["wall_s"] = time.time() - t0
            return res
        use_summary = mul_summary_valid(mirpath)
        T.reset()
        ex = Executor(get_mir(mirpath), fmt)
        if use_summary:
            ex.stubs["bellerophon::mul"] = _mul_stub
            ex.stubs["mul"] = _mul_stub
        res["mul_summary"] = use_summary
        w = T.var("w", wlo, whi)
        num = VTuple([_i32(q), _u64(w), VBool(T.boolc(bool(many)))], "Number")
        leaves = ex.call("bellerophon", [Boxed(num)])
        bads = []
        kinds = {"definite": 0, "declined": 0, "panic": 0}
        for lf in leaves:
            B = lf.B
            if lf.kind != "return":
                kinds["panic"] += 1
                bads.append(lf.pc_term())
                continue
            mant, exp = lf.value.items[0].t, lf.value.items[1].t
            definite = B.ge(exp, T.const(0))
            w1 = B.add(w, T.const(1)) if many else w
            conds = []
            if definite is not T.FALSE:
                kinds["definite"] += 1
                ok = specs.rn_extended(B, fmt, w, q, mant, exp)
                if many:
                    ok = B.band_bool(ok, specs.rn_extended(B, fmt, w1, q, mant, exp, upper_closed=True))
                conds.append(B.band_bool(definite, B.bnot(ok)))
            if definite is not T.TRUE:
                kinds["declined"] += 1
                ue = B.sub(exp, T.const(inv))
                conds.append(B.band_bool(B.bnot(definite),
                                         B.bnot(decline_contract(B, fmt, w, w1, q, mant, ue, strict))))
            if strict:
                # preconditions of the summarised mul() (its debug_assert!s): both operands have a bit above 2^32
                for c in lf.log:
                    if c[0] == "mul_pre":
                        conds.append(B.bor_bool(B.lt(c[1], T.const(1 << 32)), B.lt(c[2], T.const(1 << 32))))
            bads.append(lf.guarded(B.disj(conds)))
        rng = random.Random(seed * 1000003 + q * 131 + lz)
        ok, msg = partition_check(leaves, [{"w": v} for v in sample_values(wlo, whi, rng)])
        if not ok:
            res.update(status="error", detail="path partition check failed: " + msg)
            res["wall_s"] = time.time() - t0
            return res
        isb = res["job"] == "bell"
        status, model, stats = decide(bads, timeout, order=BELL_ORDER if isb else None, leaf_first=isb)
        res.update(status=status, leaves=len(leaves), kinds=kinds, stats=stats, paths=ex.stats["paths"])
        if model:
            res["model"] = {"w": model.get("w")}
    except Exception as e:
        res.update(status="error", detail="%s: %s" % (type(e).__name__, e), tb=traceback.format_exc()[-1500:])
    res["wall_s"] = time.time() - t0
    return res


# --------------------------------------------------------------------------
# fast path (O-FP): Number::try_fast_path
# --------------------------------------------------------------------------

def _float_const_value(vf):
    """Exact rational value of a float constant read from the MIR (table entry)."""
    from fractions import Fraction
    if vf.d[0] == "lit":
        return Fraction(vf.d[1])
    if vf.d[0] == "bits":
        bits = T.evaluate(vf.d[1], {})
        F = specs.FORMATS[vf.ty]
        e = bits >> F["p1"]
        f = bits & ((1 << F["p1"]) - 1)
        M = f + ((1 << F["p1"]) if e else 0)
        return Fraction(M) * Fraction(2) ** (max(e, 1) - F["bias"])
    return None


def job_fast_path(args):
    """Number::try_fast_path::<F> for a concrete decimal exponent q, all (w, many_digits):
       a Some(..) result is ONE IEEE multiply/divide whose operands are exact and whose exact product/quotient
       equals w * 10^q (so that the single correctly rounded hardware operation yields RN(w*10^q));
       never Some when digits were truncated; table indices in range (get_unchecked)."""
    (mirpath, fmt, q, timeout) = args
    t0 = time.time()
    res = {"job": "fast_path", "fmt": fmt, "q": q}
    try:
        from fractions import Fraction
        from mir2smt.symex import VVariant, VFloat
        T.reset()
        ex = Executor(get_mir(mirpath), fmt)
        F = specs.FORMATS[fmt]
        w = T.var("w", 0, (1 << 64) - 1)
        many = T.boolvar("many")
        num = VTuple([_i32(q), _u64(w), VBool(many)], "Number")
        name = [n for n in ex.mir.items if n.endswith("::try_fast_path")][0]
        leaves = ex.call(name, [Boxed(num)])
        bads = []
        nsome = 0
        for lf in leaves:
            B = lf.B
            if lf.kind != "return":
                bads.append(lf.pc_term())      # panic or out-of-bounds table access reachable
                continue
            v = lf.value
            if not isinstance(v, VVariant) or v.variant == "None":
                continue
            nsome += 1
            fl = v.items[0]
            ok = T.TRUE
            ops = [c for c in lf.log if c[0] == "float_op"]
            if len(ops) != 1 or not isinstance(fl, VFloat) or fl.d[0] not in ("fmul", "fdiv"):
                res.update(status="violated", detail="fast path result is not a single IEEE operation: %r" % (fl,),
                           model={"q": q})
                res["wall_s"] = time.time() - t0
                return res
            a, b = fl.d[1], fl.d[2]
            if not (isinstance(a, VFloat) and a.d[0] == "from_int"):
                res.update(status="violated", detail="left operand is not an integer conversion: %r" % (a,), model={"q": q})
                res["wall_s"] = time.time() - t0
                return res
            mterm = a.d[1]
            pv = _float_const_value(b) if isinstance(b, VFloat) else None
            if pv is None or pv.denominator != 1:
                res.update(status="violated", detail="right operand is not an exact table power: %r" % (b,), model={"q": q})
                res["wall_s"] = time.time() - t0
                return res
            p = pv.numerator
            # operand exactness: the integer must be representable (<= 2^(p1+1)) and the power must be a power of ten
            # that the format represents exactly (checked by the table obligation; here: it is what the code read)
            exact_int = B.le(mterm, T.const(1 << (F["p1"] + 1)))
            # exact value identity:  m' * p == w * 10^q   (mul)   or   m' == w * 10^q * p  (div)
            if fl.d[0] == "fmul":
                lhs, rhs = (B.mul(mterm, T.const(p)), B.mul(w, T.const(10 ** q))) if q >= 0 else \
                           (B.mul(B.mul(mterm, T.const(p)), T.const(10 ** (-q))), w)
            else:
                lhs, rhs = (mterm, B.mul(B.mul(w, T.const(10 ** q)), T.const(p))) if q >= 0 else \
                           (B.mul(mterm, T.const(10 ** (-q))), B.mul(w, T.const(p)))
            ok = B.band_bool(exact_int, B.band_bool(B.eq(lhs, rhs), B.bnot(many)))
            bads.append(lf.guarded(B.bnot(ok)))
        status, model, stats = decide(bads, timeout)
        res.update(status=status, leaves=len(leaves), some_leaves=nsome, stats=stats)
        if model:
            res["model"] = {"w": model.get("w"), "many": model.get("many")}
            # The contract (operands exact, exact quotient/product == w*10^q) is sufficient for correct rounding, not
            # necessary: one witness of its violation need not be misrounded by the real code (an inexact table power still
            # rounds most significands correctly).  Ask the solver for further witnesses of the same violated contract in
            # disjoint windows of w, so that the replay on the real crate can find one that is observably wrong.
            B0 = T.Builder()
            more = []
            lim = F["p1"] + 1
            for k in list(range(lim - 1, 3, -2)) + [lim + 3, 40, 62]:
                lo, hi = (1 << k) | 1, (1 << (k + 1)) - 1
                win = B0.band_bool(B0.le(T.const(lo), w), B0.le(w, T.const(hi)))
                for extra in (T.TRUE, B0.le(T.const(lo + (hi - lo) // 2), w)):
                    st2, m2, s2 = decide([B0.band_bool(b, B0.band_bool(win, extra)) for b in bads if b is not T.FALSE],
                                         min(timeout, 10), leaf_fallback=False)
                    stats["queries"] += s2.get("queries", 0)
                    stats["solver_s"] += s2.get("solver_s", 0.0)
                    if st2 == "violated" and m2 and m2.get("w") is not None:
                        more.append({"w": m2.get("w"), "many": m2.get("many")})
            res["more_models"] = more
    except Exception as e:
        res.update(status="error", detail="%s: %s" % (type(e).__name__, e), tb=traceback.format_exc()[-1500:])
    res["wall_s"] = time.time() - t0
    return res


def job_bell_early(args):
    """bellerophon::<F> early outs with the decimal exponent SYMBOLIC (compact MIR): every exponent below the table range
    gives (0, 0), every exponent above it +infinity, a zero significand gives (0, 0) for every exponent; no panic leaf
    (on the debug-assertion MIR: no arithmetic-overflow assert) is reachable for any i32 exponent."""
    (mirpath, fmt, timeout) = args
    t0 = time.time()
    res = {"job": "bell_early", "fmt": fmt}
    try:
        T.reset()
        ex = Executor(get_mir(mirpath), fmt)
        if mul_summary_valid(mirpath):
            T.reset()
            ex = Executor(get_mir(mirpath), fmt)
            ex.stubs["bellerophon::mul"] = _mul_stub
            ex.stubs["mul"] = _mul_stub
        F = specs.FORMATS[fmt]
        bads = []
        w = T.var("w", 1, (1 << 64) - 2)
        many = T.boolvar("many")
        for (qlo, qhi, want_exp) in ((-(1 << 31), -351, 0), (310, (1 << 31) - 1, F["inf"])):
            q = T.var("q", qlo, qhi)
            num = VTuple([VInt(q, 32, True), _u64(w), VBool(many)], "Number")
            for lf in ex.call("bellerophon", [Boxed(num)]):
                B = lf.B
                if lf.kind != "return":
                    bads.append(lf.pc_term())
                    continue
                mant, exp = lf.value.items[0].t, lf.value.items[1].t
                bads.append(lf.guarded(B.bnot(B.band_bool(B.eq(mant, T.const(0)), B.eq(exp, T.const(want_exp))))))
        q3 = T.var("q", -(1 << 31), (1 << 31) - 1)
        num = VTuple([VInt(q3, 32, True), _u64(T.const(0)), VBool(many)], "Number")
        for lf in ex.call("bellerophon", [Boxed(num)]):
            B = lf.B
            if lf.kind != "return":
                bads.append(lf.pc_term())
                continue
            mant, exp = lf.value.items[0].t, lf.value.items[1].t
            bads.append(lf.guarded(B.bnot(B.band_bool(B.eq(mant, T.const(0)), B.eq(exp, T.const(0))))))
        # ground facts that make these early outs correct: (2^64-1)*10^-351 rounds to zero, 1*10^310 to infinity
        B = T.Builder()
        lhs, rhs = specs.scaled_cmp_sides(B, T.const((1 << 64) - 1), -351, T.const(1), 1 - F["bias"] - 1)
        zero_ok = B.le(lhs, rhs)
        lhs, rhs = specs.scaled_cmp_sides(B, T.const(1), 310, T.const((1 << (F["p1"] + 2)) - 1), F["inf"] - 2 - F["bias"])
        if zero_ok is not T.TRUE or B.ge(lhs, rhs) is not T.TRUE:
            res.update(status="error", detail="threshold facts for the Bellerophon table range do not hold")
            return res
        status, model, stats = decide(bads, timeout, order=BELL_ORDER)
        res.update(status=status, stats=stats)
        if model:
            res["model"] = {k: model.get(k) for k in ("w", "q", "many")}
    except Exception as e:
        res.update(status="error", detail="%s: %s" % (type(e).__name__, e), tb=traceback.format_exc()[-1500:])
    res["wall_s"] = time.time() - t0
    return res
