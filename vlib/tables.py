"""Engine E3: ground SMT queries over the power tables AS COMPILED (values are read from rustc's MIR dump:
static allocation bytes and constant array literals), with the table index as the only free variable.

Each script defines the powers by a multiplication chain inside the solver (p_{k+1} = 5 * p_k), states the
defining relation of every entry, negates it under `i = k`, and asks for a satisfying index.  unsat = every
entry equals its definition; sat = the model names the offending index."""
import re
from fractions import Fraction

from mir2smt import terms as T
from mir2smt import solve, specs
from mir2smt.symex import Executor, VInt, VArray, VTuple, VRef, VFloat
from . import mirjobs as J


def _vals(ex, name):
    v = ex.const_item(name)
    if isinstance(v, VRef):
        v = v.const
    out = []
    for it in v.items:
        if isinstance(it, VInt):
            out.append(T.evaluate(it.t, {}))
        elif isinstance(it, VTuple):
            out.append(tuple(T.evaluate(x.t, {}) for x in it.items))
        elif isinstance(it, VFloat):
            out.append(it)
        else:
            raise T.Unsupported("table element %r" % (it,))
    return out


def _static(ex, static_name):
    for aname, (sname, data) in ex.mir.allocs.items():
        if sname and sname.endswith(static_name):
            return data
    return None


def _ic(v):
    return str(v) if v >= 0 else "(- %d)" % (-v)


def _script(npow, base, rel_lines, n_index):
    """rel_lines: list of (k, smt boolean text for `entry k is correct`)."""
    out = ["(set-logic ALL)", "(define-fun p0 () Int 1)"]
    for k in range(1, npow + 1):
        out.append("(define-fun p%d () Int (* %d p%d))" % (k, base, k - 1))
    out.append("(declare-fun i () Int)")
    out.append("(assert (and (<= 0 i) (< i %d)))" % n_index)
    dis = []
    for k, rel in rel_lines:
        dis.append("(and (= i %d) (not %s))" % (k, rel))
    out.append("(assert (or false %s))" % " ".join(dis))
    out.append("(check-sat)")
    out.append("(get-value (i))")
    return "\n".join(out) + "\n"


def _solve(text, timeout=120):
    v, model, who, dt = solve.solve(text, timeout, order=("z3new", "cvc5"))
    idx = None
    if v == "sat":
        # model parser expects |name|; plain `i` here
        m = re.search(r"\(\(i (\d+)\)\)", text_out_cache.get("last", ""))
    return v, who, dt


text_out_cache = {}


def _run(text, timeout=120):
    import subprocess
    p = subprocess.run(["z3-new", "-in", "-smt2", "-T:%d" % timeout], input=text.encode(), stdout=subprocess.PIPE,
                       stderr=subprocess.STDOUT)
    out = p.stdout.decode()
    first = out.strip().split("\n")[0] if out.strip() else ""
    if first not in ("sat", "unsat") or ("(error" in out and "model is not available" not in out):
        p = subprocess.run(["cvc5", "--lang", "smt2", "--produce-models", "--tlimit=%d" % (timeout * 1000)], input=text.encode(),
                           stdout=subprocess.PIPE, stderr=subprocess.STDOUT)
        out = p.stdout.decode()
        first = out.strip().split("\n")[0] if out.strip() else ""
    idx = None
    m = re.search(r"\(\(i (\d+)\)\)", out)
    if m:
        idx = int(m.group(1))
    if first == "unsat":
        return "holds", None
    if first == "sat":
        return "violated", idx
    return "unknown", None


def job_lemire_table(args):
    """POWER_OF_FIVE_128[i] is the specified 128-bit truncation of 5^q, q = SMALLEST_POWER_OF_FIVE + i."""
    (mirpath,) = args
    res = {"job": "table_lemire"}
    try:
        ex = Executor(J.get_mir(mirpath), "f64")
        data = _static(ex, "POWER_OF_FIVE_128")
        small = T.evaluate(ex.const_item("table_lemire::SMALLEST_POWER_OF_FIVE").t, {})
        large = T.evaluate(ex.const_item("table_lemire::LARGEST_POWER_OF_FIVE").t, {})
        n = len(data) // 16
        res.update(entries=n, smallest=small, largest=large)
        if n != large - small + 1 or small != -342 or large != 308:
            res.update(status="violated", detail="table has %d entries for q in [%d, %d] (expected 651 for [-342, 308])" % (n, small, large))
            return res
        rels = []
        for k in range(n):
            q = small + k
            w0 = int.from_bytes(data[16 * k:16 * k + 8], "little")      # tuple .0 : most significant 64 bits
            w1 = int.from_bytes(data[16 * k + 8:16 * k + 16], "little")  # tuple .1 : least significant 64 bits
            c = (w0 << 64) | w1
            norm = "(and (<= %d %d) (< %d %d))" % (1 << 127, c, c, 1 << 128)
            if q >= 0:
                bl = (5 ** q).bit_length()          # witness only: the relation below pins it down
                s = 128 - bl
                if s >= 0:
                    rel = "(= %d (* p%d %d))" % (c, q, 1 << s)
                else:
                    rel = "(and (<= (* %d %d) p%d) (< p%d (* %d %d)))" % (c, 1 << (-s), q, q, c + 1, 1 << (-s))
            else:
                P = 5 ** (-q)
                z = (P - 1).bit_length()            # smallest z with 2^z >= P  (witness)
                zrel = "(and (< %d p%d) (<= p%d %d))" % ((1 << (z - 1)) if z > 0 else 0, -q, -q, 1 << z)
                if q >= -27:
                    b = z + 127
                    rel = "(and %s (<= (* %d p%d) %d) (< %d (* %d p%d)))" % (zrel, c - 1, -q, 1 << b, 1 << b, c, -q)
                else:
                    b = 2 * z + 128
                    c0 = (1 << b) // P + 1          # witness for the untruncated value
                    kk = c0.bit_length() - 128
                    rel = ("(and %s (<= (* %d p%d) %d) (< %d (* %d p%d)) (<= (* %d %d) %d) (< %d (* %d %d)))"
                           % (zrel, c0 - 1, -q, 1 << b, 1 << b, c0, -q, c, 1 << kk, c0, c0, c + 1, 1 << kk))
            rels.append((k, "(and %s %s)" % (norm, rel)))
        st, idx = _run(_script(342, 5, rels, n))
        res["status"] = st
        if idx is not None:
            res["detail"] = "POWER_OF_FIVE_128[%d] (5^%d) does not equal its definition" % (idx, small + idx)
            res["model"] = {"index": idx, "q": small + idx}
    except Exception as e:
        res.update(status="error", detail="%s: %s" % (type(e).__name__, e))
    return res


def _float_exact(vf, want_int):
    """Is the float constant (as printed in the MIR) exactly the integer want_int?"""
    if vf.d[0] == "lit":
        fr = Fraction(vf.d[1])
        fmt = vf.ty
    elif vf.d[0] == "bits":
        bits = T.evaluate(vf.d[1], {})
        F = specs.FORMATS[vf.ty]
        e = bits >> F["p1"]
        f = bits & ((1 << F["p1"]) - 1)
        M = f + ((1 << F["p1"]) if e else 0)
        fr = Fraction(M) * Fraction(2) ** (max(e, 1) - F["bias"])
        fmt = vf.ty
    else:
        return False
    if fr != want_int:
        return False
    # and it must be representable (the literal round-trips through the format)
    b = specs.rn_bits_exact(fmt, fr.numerator, fr.denominator)
    F = specs.FORMATS[fmt]
    e = b >> F["p1"]
    f = b & ((1 << F["p1"]) - 1)
    M = f + ((1 << F["p1"]) if e else 0)
    return Fraction(M) * Fraction(2) ** (max(e, 1) - F["bias"]) == fr


def job_small_tables(args):
    """SMALL_INT_POW5/10, SMALL_F32/F64_POW10 (used prefix), LARGE_POW5 = 5^135, LARGE_POW5_STEP."""
    (mirpath,) = args
    res = {"job": "table_small", "checked": {}}
    try:
        ex = Executor(J.get_mir(mirpath), "f64")
        bad = []
        p5 = _vals(ex, "table_small::SMALL_INT_POW5")
        p10 = _vals(ex, "table_small::SMALL_INT_POW10")
        rels = [(k, "(= %d p%d)" % (v, k)) for k, v in enumerate(p5)]
        st5, idx5 = _run(_script(len(p5), 5, rels, len(p5)))
        rels = [(k, "(= %d p%d)" % (v, k)) for k, v in enumerate(p10)]
        st10, idx10 = _run(_script(len(p10), 10, rels, len(p10)))
        res["checked"]["SMALL_INT_POW5"] = len(p5)
        res["checked"]["SMALL_INT_POW10"] = len(p10)
        if len(p5) != 28 or len(p10) != 20:
            bad.append("table sizes %d/%d (expected 28/20)" % (len(p5), len(p10)))
        if st5 != "holds":
            bad.append("SMALL_INT_POW5[%s] != 5^i (%s)" % (idx5, st5))
        if st10 != "holds":
            bad.append("SMALL_INT_POW10[%s] != 10^i (%s)" % (idx10, st10))
        # float tables: entries up to MAX_EXPONENT_FAST_PATH must be exactly 10^i
        for fmt, name in (("f32", "table_small::SMALL_F32_POW10"), ("f64", "table_small::SMALL_F64_POW10")):
            tv = _vals(ex, name)
            exf = Executor(J.get_mir(mirpath), fmt)
            maxe = T.evaluate(exf.const_item("<F as num::Float>::MAX_EXPONENT_FAST_PATH").t, {})
            if maxe >= len(tv):
                bad.append("%s has %d entries but MAX_EXPONENT_FAST_PATH = %d" % (name, len(tv), maxe))
                continue
            for i in range(maxe + 1):
                if not _float_exact(tv[i], 10 ** i):
                    bad.append("%s[%d] is not exactly 10^%d (%r)" % (name, i, i, tv[i]))
            res["checked"][name.split("::")[-1]] = maxe + 1
        lp = _vals(ex, "table_small::LARGE_POW5")
        step = T.evaluate(ex.const_item("table_small::LARGE_POW5_STEP").t, {})
        total = " ".join("(* %d %d)" % (v, 1 << (64 * k)) for k, v in enumerate(lp))
        stl, _ = _run(_script(max(step, 1), 5, [(0, "(= (+ 0 %s) p%d)" % (total, step))], 1))
        res["checked"]["LARGE_POW5"] = len(lp)
        if stl != "holds" or step != 135:
            bad.append("LARGE_POW5 (step %d) is not 5^step (%s)" % (step, stl))
        res["status"] = "violated" if bad else "holds"
        if bad:
            res["detail"] = "; ".join(bad)
            res["model"] = {"bad": bad}
    except Exception as e:
        res.update(status="error", detail="%s: %s" % (type(e).__name__, e))
    return res


def job_power_formula(args):
    """lemire::power(q) = floor(log2(10^q)) + 63 for every q of the table range, from the MIR of `power`."""
    (mirpath,) = args
    res = {"job": "power_formula"}
    try:
        ex = Executor(J.get_mir(mirpath), "f64")
        bad = []
        for q in range(-342, 309):
            lv = ex.call("power", [VInt(T.const(q), 32, True)])
            p = T.evaluate(lv[0].value.t, {})
            e = p - 63
            # 2^e <= 10^q < 2^(e+1)
            ok = (Fraction(2) ** e <= Fraction(10) ** q) and (Fraction(10) ** q < Fraction(2) ** (e + 1))
            if not ok:
                bad.append(q)
        res["status"] = "violated" if bad else "holds"
        res["checked"] = 651
        if bad:
            res["detail"] = "power(q) != floor(log2 10^q)+63 for q in %r" % bad[:5]
            res["model"] = {"q": bad[:5]}
    except Exception as e:
        res.update(status="error", detail="%s: %s" % (type(e).__name__, e))
    return res


def job_bellerophon_tables(args):
    """compact build: small/large significands are the truncated normalised powers of ten; exponents derived by
    get_small / get_large (real MIR) are the matching binary exponents; small_int[k] = 10^k."""
    (mirpath,) = args
    res = {"job": "table_bellerophon", "checked": {}}
    try:
        from mir2smt.symex import Boxed
        ex = Executor(J.get_mir(mirpath), "f64")
        powers = ex.const_item("table_bellerophon::BASE10_POWERS")
        step = T.evaluate(powers.items[3].t, {})
        bias = T.evaluate(powers.items[4].t, {})
        small = [T.evaluate(x.t, {}) for x in powers.items[0].const.items]
        large = [T.evaluate(x.t, {}) for x in powers.items[1].const.items]
        sint = [T.evaluate(x.t, {}) for x in powers.items[2].const.items]
        bad = []
        if step != 10 or bias != 350 or len(small) != step or len(sint) != step:
            bad.append("step/bias/len = %d/%d/%d/%d" % (step, bias, len(small), len(sint)))
        rels_small, rels_large = [], []
        for k in range(len(small)):
            lv = ex.call("get_small", [Boxed(powers), VInt(T.const(k), 64, False)])
            m, e = (T.evaluate(x.t, {}) for x in lv[0].value.items)
            # exact: m * 2^e == 10^k, normalised
            if e >= 0:
                rel = "(= (* %d %d) p%d)" % (m, 1 << e, k)
            else:
                rel = "(= %d (* p%d %d))" % (m, k, 1 << (-e))
            rels_small.append((k, "(and (<= %d %d) (< %d %d) (= %d p%d) %s)" % (1 << 63, m, m, 1 << 64, sint[k], k, rel)))
        st_s, idx_s = _run(_script(len(small), 10, rels_small, len(small)))
        if st_s != "holds":
            bad.append("small power %s is not the normalised 10^k (%s)" % (idx_s, st_s))
        for j in range(len(large)):
            dec = j * step - bias
            lv = ex.call("get_large", [Boxed(powers), VInt(T.const(j), 64, False)])
            m, e = (T.evaluate(x.t, {}) for x in lv[0].value.items)
            norm = "(and (<= %d %d) (< %d %d))" % (1 << 63, m, m, 1 << 64)
            # truncated: m * 2^e <= 10^dec < (m+1) * 2^e
            a = abs(dec)
            if dec >= 0:
                if e >= 0:
                    rel = "(and (<= (* %d %d) p%d) (< p%d (* %d %d)))" % (m, 1 << e, a, a, m + 1, 1 << e)
                else:
                    rel = "(and (<= %d (* p%d %d)) (< (* p%d %d) %d))" % (m, a, 1 << (-e), a, 1 << (-e), m + 1)
            else:
                # m * 2^e * 10^a <= 1 < (m+1) * 2^e * 10^a   with e < 0
                rel = "(and (<= (* %d p%d) %d) (< %d (* %d p%d)))" % (m, a, 1 << (-e), 1 << (-e), m + 1, a)
            rels_large.append((j, "(and %s %s)" % (norm, rel)))
        st_l, idx_l = _run(_script(360, 10, rels_large, len(large)))
        if st_l != "holds":
            bad.append("large power index %s is not the truncated normalised 10^(10j-350) (%s)" % (idx_l, st_l))
        res["checked"] = {"small": len(small), "large": len(large), "small_int": len(sint)}
        res["status"] = "violated" if bad else "holds"
        if bad:
            res["detail"] = "; ".join(bad)
            res["model"] = {"bad": bad}
    except Exception as e:
        import traceback
        res.update(status="error", detail="%s: %s" % (type(e).__name__, e), tb=traceback.format_exc()[-800:])
    return res


def job_sticky_lemma(args):
    """O-SL: every rounding midpoint of the format has at most MAX_DIGITS - 1 significant decimal digits, so cutting a
    digit string after MAX_DIGITS digits and appending a single non-zero digit preserves its order against every
    midpoint.  Midpoints are (2M+1) * 2^(E-1), M < 2^(p1+1), E >= 1 - bias: the one with most digits is the largest odd
    multiple at the smallest exponent, (2^(p1+2) - 1) * 2^(-bias) = (2^(p1+2) - 1) * 5^bias / 10^bias, whose digit
    count is that of the integer (2^(p1+2) - 1) * 5^bias.  Ground check (inside the solver):
         (2^(p1+2) - 1) * 5^bias  <  10^(MAX_DIGITS - 1)
    with MAX_DIGITS read from the MIR constant of the current tree.  Also BIGINT capacity constants."""
    (mirpath,) = args
    res = {"job": "sticky_lemma", "checked": {}}
    try:
        bad = []
        for fmt in ("f32", "f64"):
            ex = Executor(J.get_mir(mirpath), fmt)
            md = T.evaluate(ex.const_item("<F as num::Float>::MAX_DIGITS").t, {})
            F = specs.FORMATS[fmt]
            top = (1 << (F["p1"] + 2)) - 1
            text = "\n".join([
                "(set-logic ALL)", "(define-fun p0 () Int 1)"] +
                ["(define-fun p%d () Int (* 5 p%d))" % (k, k - 1) for k in range(1, F["bias"] + 1)] +
                ["(define-fun t0 () Int 1)"] +
                ["(define-fun t%d () Int (* 10 t%d))" % (k, k - 1) for k in range(1, max(md, 2))] +
                ["(assert (not (< (* %d p%d) t%d)))" % (top, F["bias"], md - 1), "(check-sat)"]) + "\n"
            st, _ = _run(text.replace("(check-sat)", "(declare-fun i () Int)\n(check-sat)\n(get-value (i))"))
            res["checked"][fmt] = {"MAX_DIGITS": md, "status": st}
            if st != "holds":
                bad.append("%s: MAX_DIGITS = %d is too small: a midpoint has %d or more significant digits (%s)" % (
                    fmt, md, md, st))
        res["status"] = "violated" if bad else "holds"
        if bad:
            res["detail"] = "; ".join(bad)
            res["model"] = {"bad": bad}
    except Exception as e:
        res.update(status="error", detail="%s: %s" % (type(e).__name__, e))
    return res


def job_capacity(args):
    """O-CAP (ground part): with the constants of the current tree, the largest big integer the slow path can build for
    valid input fits the fixed capacity with one limb to spare:
      positive exponents:  10^(LARGEST_POWER_OF_TEN + 20)                       < 2^(64*(LIMBS-1))
      negative exponents:  4 * 10^(MAX_DIGITS + 1)                             < 2^(64*(LIMBS-1))
                           2^(p1+4) * 5^(MAX_DIGITS - SMALLEST_POWER_OF_TEN)   < 2^(64*(LIMBS-1))
    (the bit-length argument that these are the maxima is written in DESIGN.md; this job decides the arithmetic)."""
    (mirpath,) = args
    res = {"job": "capacity", "checked": {}}
    try:
        bad = []
        ex64 = Executor(J.get_mir(mirpath), "f64")
        limbs = T.evaluate(ex64.const_item("bigint::BIGINT_LIMBS").t, {})
        limb_bits = T.evaluate(ex64.const_item("bigint::LIMB_BITS").t, {})
        cap_bits = limb_bits * (limbs - 1)
        res["checked"]["BIGINT_LIMBS"] = limbs
        for fmt in ("f64", "f32"):
            ex = Executor(J.get_mir(mirpath), fmt)
            md = T.evaluate(ex.const_item("<F as num::Float>::MAX_DIGITS").t, {})
            small = T.evaluate(ex.const_item("<F as num::Float>::SMALLEST_POWER_OF_TEN").t, {})
            large = T.evaluate(ex.const_item("<F as num::Float>::LARGEST_POWER_OF_TEN").t, {})
            p1 = specs.FORMATS[fmt]["p1"]
            n5 = md - small
            lines = ["(set-logic ALL)", "(define-fun p0 () Int 1)"]
            lines += ["(define-fun p%d () Int (* 5 p%d))" % (k, k - 1) for k in range(1, max(n5, md + 1, large + 20) + 1)]
            cap = 1 << cap_bits
            a = large + 20
            lines.append("(assert (not (and (< (* p%d %d) %d) (< (* 4 (* p%d %d)) %d) (< (* %d p%d) %d))))" % (
                a, 1 << a, cap, md + 1, 1 << (md + 1), cap, 1 << (p1 + 4), n5, cap))
            lines += ["(declare-fun i () Int)", "(check-sat)", "(get-value (i))"]
            st, _ = _run("\n".join(lines) + "\n")
            res["checked"][fmt] = {"MAX_DIGITS": md, "smallest_q": small, "largest_q": large, "status": st}
            if st != "holds":
                bad.append("%s: capacity of %d limbs does not cover MAX_DIGITS=%d, q in [%d, %d] (%s)" % (fmt, limbs, md, small, large, st))
        res["status"] = "violated" if bad else "holds"
        if bad:
            res["detail"] = "; ".join(bad)
            res["model"] = {"bad": bad}
    except Exception as e:
        res.update(status="error", detail="%s: %s" % (type(e).__name__, e))
    return res
