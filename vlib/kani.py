"""Engine E2: Kani proof harnesses over the compiled crate.  A harness crate from /verif/kani/<name> is
instantiated in the scratch directory with a path dependency on the scratch copy of /repo."""
import os
import re
import shutil
import subprocess
import time

from . import common as C


_GEN = {}     # crate -> {relative path: text} extra generated sources


def set_generated(crate, files):
    _GEN[crate] = files


def instantiate(crate, config):
    rc = C.repo_copy()
    d = os.path.join(C.scratch(), "kani_%s_%s" % (crate, config))
    if not os.path.isdir(d):
        shutil.copytree(os.path.join(C.VERIF, "kani", crate), d, ignore=shutil.ignore_patterns("target"))
        feats = ", ".join('"%s"' % f for f in C.CONFIGS[config])
        t = open(os.path.join(d, "Cargo.toml.in")).read().replace("@REPO@", rc).replace("@FEATURES@", feats)
        open(os.path.join(d, "Cargo.toml"), "w").write(t)
    for rel, text in _GEN.get(crate, {}).items():
        path = os.path.join(d, rel)
        if not os.path.exists(path) or open(path).read() != text:
            open(path, "w").write(text)
    return d


def list_harnesses(crate):
    out = []
    src = os.path.join(C.VERIF, "kani", crate, "src")
    for root, _d, files in os.walk(src):
        for f in files:
            if f.endswith(".rs"):
                txt = open(os.path.join(root, f)).read()
                rel = os.path.relpath(os.path.join(root, f), src)[:-3].replace(os.sep, "::")
                mod = "" if rel in ("lib", "main") else rel.replace("::mod", "") + "::"
                for m in re.finditer(r"#\[kani::proof\][^\n]*\n(?:\s*#\[[^\n]*\]\n)*\s*(?:pub )?fn (\w+)", txt):
                    out.append(mod + m.group(1))
    return out


def parse_result(out):
    """Kani's per-harness verdict + cover results."""
    res = {"status": "unknown", "covers_unsat": [], "failed_checks": []}
    if "VERIFICATION:- SUCCESSFUL" in out:
        res["status"] = "holds"
    elif "VERIFICATION:- FAILED" in out:
        res["status"] = "failed"
    for m in re.finditer(r"Status: (UNSATISFIABLE)\s*\n\s*- Description: \"([^\"]*)\"", out):
        res["covers_unsat"].append(m.group(2))
    res["covers_sat_desc"] = [m.group(1) for m in re.finditer(r"Status: SATISFIED\s*\n\s*- Description: \"([^\"]*)\"", out)]
    res["covers_sat"] = len(res["covers_sat_desc"])
    for m in re.finditer(r"Check \d+: ([^\n]*)\n\s*- Status: FAILURE\s*\n\s*- Description: \"([^\"]*)\"(?:\s*\n\s*- Location: ([^\n]*))?", out):
        res["failed_checks"].append({"check": m.group(1), "desc": m.group(2), "loc": (m.group(3) or "").strip()})
    m = re.search(r"Verification Time: ([\d.]+)s", out)
    if m:
        res["time_s"] = float(m.group(1))
    # a timeout / crash / out-of-memory run prints VERIFICATION:- FAILED too: it is NOT a verdict
    if "CBMC timed out" in out or "Status: ERROR" in out or "out of memory" in out.lower() or \
            (res["status"] == "failed" and not res["failed_checks"] and "Failed Checks:" not in out):
        res["status"] = "unknown"
        res["why_unknown"] = "timeout" if "CBMC timed out" in out else "cbmc error / no failed check reported"
    return res


def run_harness(crate, config, harness, timeout=600, extra_args=(), target_dir=None, mem_gb=12):
    d = instantiate(crate, config)
    cmd = ["cargo", "kani", "--harness", harness, "--exact"]
    feats = [f for f in C.CONFIGS[config] if f in ("compact", "alloc")]
    if feats:
        cmd += ["--features", ",".join(feats)]
    if target_dir:
        cmd += ["--target-dir", target_dir]
    cmd += list(extra_args)
    t0 = time.time()
    pre = "ulimit -v %d; " % (mem_gb * 1024 * 1024)
    import signal
    proc = subprocess.Popen(["bash", "-c", pre + "exec " + " ".join("'%s'" % c for c in cmd)], cwd=d,
                            stdout=subprocess.PIPE, stderr=subprocess.STDOUT, env=C.ENV, start_new_session=True)
    try:
        o, _ = proc.communicate(timeout=timeout)
        out = o.decode(errors="replace")
    except subprocess.TimeoutExpired:
        try:
            os.killpg(proc.pid, signal.SIGKILL)
        except ProcessLookupError:
            pass
        o, _ = proc.communicate()
        out = (o or b"").decode(errors="replace") + "\nTIMEOUT"
    r = parse_result(out)
    r["harness"] = harness
    r["wall_s"] = time.time() - t0
    r["tail"] = out[-1500:] if r["status"] != "holds" else ""
    if "TIMEOUT" in out[-10:]:
        r["status"] = "unknown"
        r["tail"] = "timeout after %ds" % timeout
    return r


def run_batch(crate, config, harnesses, timeout=600, extra_args=(), target_dir=None, mem_gb=14):
    """One `cargo kani` invocation for several harnesses (the crate is compiled once); per-harness timeout through
    Kani's --harness-timeout; the combined output is split at the 'Checking harness' banners."""
    import signal
    d = instantiate(crate, config)
    cmd = ["cargo", "kani", "--exact", "-Z", "unstable-options", "--harness-timeout", "%ds" % timeout]
    for h in harnesses:
        cmd += ["--harness", h]
    feats = [f for f in C.CONFIGS[config] if f in ("compact", "alloc")]
    if feats:
        cmd += ["--features", ",".join(feats)]
    if target_dir:
        cmd += ["--target-dir", target_dir]
    cmd += list(extra_args)
    t0 = time.time()
    pre = "ulimit -v %d; " % (mem_gb * 1024 * 1024)
    proc = subprocess.Popen(["bash", "-c", pre + "exec " + " ".join("'%s'" % c for c in cmd)], cwd=d,
                            stdout=subprocess.PIPE, stderr=subprocess.STDOUT, env=C.ENV, start_new_session=True)
    total = timeout * len(harnesses) + 600
    try:
        o, _ = proc.communicate(timeout=total)
        out = o.decode(errors="replace")
    except subprocess.TimeoutExpired:
        try:
            os.killpg(proc.pid, signal.SIGKILL)
        except ProcessLookupError:
            pass
        o, _ = proc.communicate()
        out = (o or b"").decode(errors="replace") + "\nTIMEOUT"
    wall = time.time() - t0
    # split per harness
    segs = {}
    parts = re.split(r"(?m)^Checking harness ([\w:]+)\.\.\.\s*$", out)
    preamble = parts[0]
    for i in range(1, len(parts) - 1, 2):
        segs[parts[i]] = parts[i + 1]
    results = []
    for h in harnesses:
        seg = segs.get(h)
        if seg is None:
            r = {"status": "unknown", "covers_unsat": [], "failed_checks": [], "covers_sat": 0, "covers_sat_desc": [],
                 "tail": ("harness did not run: " + preamble[-600:] + out[-600:])}
        else:
            r = parse_result(seg)
            r["tail"] = seg[-1500:] if r["status"] != "holds" else ""
            if r["status"] == "unknown" and ("timed out" in seg.lower() or "timeout" in seg.lower()):
                r["tail"] = "timeout after %ds" % timeout
        r["harness"] = h
        r["wall_s"] = r.get("time_s") or 0.0
        results.append(r)
        if os.environ.get("VERIF_VERBOSE"):
            import sys
            sys.stderr.write("  kani %-45s %-8s %6.1fs\n" % (h, r["status"], r["wall_s"]))
    if results:
        results[0]["batch_wall_s"] = wall
    return results


def _worker(args):
    (crate, config, harnesses, lane, timeout, extra) = args
    td = os.path.join(C.scratch(), "kani_target_%s_%s_%d" % (crate, config, lane))
    out = []
    # chunks keep the command line short and bound the damage of a crashed invocation
    for i in range(0, len(harnesses), 12):
        out.extend(run_batch(crate, config, harnesses[i:i + 12], timeout, extra, td))
    return out


def run_many(crate, config, harnesses, lanes=None, timeout=600, extra=()):
    """Run harnesses in `lanes` parallel lanes, each with its own target dir (Kani cannot share one)."""
    from . import pool
    lanes = lanes or min(len(harnesses), max(1, C.NCPU // 2))
    instantiate(crate, config)
    # longest-processing-time-first: cost grows with the shape numbers in the harness name
    def cost(h):
        nums = [int(x) for x in re.findall(r"\d+", h.split("::")[-1])[1:]] or [1]
        return 1 + max(nums) + 0.3 * sum(nums)
    order = sorted(harnesses, key=cost, reverse=True)
    buckets = [[] for _ in range(lanes)]
    load = [0.0] * lanes
    for h in order:
        i = load.index(min(load))
        buckets[i].append(h)
        load[i] += cost(h)
    jobs = [(_worker, (crate, config, b, i, timeout, tuple(extra))) for i, b in enumerate(buckets) if b]
    res = []
    for r in pool.run_jobs(jobs, procs=len(jobs)):
        res.extend(r)
    return res


def replay(crate, config, harness, timeout=900, extra=()):
    """Concrete playback: let Kani write the counterexample as a unit test into the scratch copy of the
    harness crate, then run that test natively (dev profile, and release) against the real crate.
    Returns (reproduced, generated test source, log tail)."""
    d = instantiate(crate, config)
    feats = [f for f in C.CONFIGS[config] if f in ("compact", "alloc")]
    fa = ["--features", ",".join(feats)] if feats else []
    cmd = ["cargo", "kani", "--harness", harness, "-Z", "concrete-playback", "--concrete-playback=inplace"] + fa + list(extra)
    try:
        code, out = C.run(cmd, cwd=d, timeout=timeout)
    except Exception as e:
        return False, "", "playback generation failed: %s" % e
    # find generated tests; Kani writes one per failing check and may write the same one twice: de-duplicate by name
    tests = []
    src = ""
    block = re.compile(r"(?:#\[test\]\s*\n)?\s*fn (kani_concrete_playback_\w+)\(\)\s*\{.*?\n\}\n", re.S)
    for root, _d, files in os.walk(os.path.join(d, "src")):
        for f in files:
            if f.endswith(".rs"):
                path = os.path.join(root, f)
                txt = open(path).read()
                seen = set()

                def keep(m):
                    if m.group(1) in seen:
                        return ""
                    seen.add(m.group(1))
                    return m.group(0)

                new_txt = block.sub(keep, txt)
                if new_txt != txt:
                    open(path, "w").write(new_txt)
                for m in block.finditer(new_txt):
                    if harness.split("::")[-1] in m.group(1):
                        tests.append(m.group(1))
                        src += m.group(0) + "\n"
    if not tests:
        return False, "", out[-1500:]
    reproduced = False
    log = ""
    for t in tests[:4]:
        cmd = ["cargo", "kani", "playback", "-Z", "concrete-playback"] + fa + ["--", t]
        try:
            code, o = C.run(cmd, cwd=d, timeout=timeout)
        except Exception as e:
            o = "playback run failed: %s" % e
        log += o[-800:]
        if re.search(r"test result: FAILED|panicked at", o):
            reproduced = True
            break
    return reproduced, src, log
