"""Obligation groups built on the MIR engine (E1) and Kani (E2): selection of (format, q, lz) classes per tier,
running them in the pool, replaying counterexamples on the real crate, recording into a Report."""
import random
import re
import time

from mir2smt import specs
from . import common as C
from . import mirjobs as J
from . import pool

F64_Q = (-342, 308)
F32_Q = (-65, 38)
BELL_Q = (-350, 309)


def table_range(fmt):
    return F64_Q if fmt == "f64" else F32_Q


def lemire_classes(fmt, tier, seed, focus=None):
    """(q, lz) classes for compute_float.  thorough: all.  quick: every q at lz=0 and at two seeded lz,
    plus every class whose result can be subnormal / zero / infinite (boundary set)."""
    qlo, qhi = table_range(fmt)
    qs = list(range(qlo - 1, qhi + 2))
    if tier == "thorough":
        return [(q, lz) for q in qs for lz in range(64)]
    rng = random.Random(seed * 7919 + (1 if fmt == "f64" else 2))
    out = set()
    for q in qs:
        out.add((q, 0))
        out.add((q, rng.randrange(1, 64)))
        out.add((q, rng.randrange(1, 64)))
    # boundary classes: decimal magnitude near the ends of the range
    F = specs.FORMATS[fmt]
    for q in qs:
        for lz in range(0, 64, 1):
            # log2(w*10^q) for w in class
            approx = (63 - lz) + q * 3.321928094887362
            emin = 1 - F["bias"] - 2          # around the smallest subnormal
            enorm = 1 - F["bias"] + F["p1"]   # smallest normal
            emax = F["inf"] - 1 - F["bias"] + F["p1"] + 1
            if emin - 3 <= approx <= enorm + 2 or emax - 3 <= approx <= emax + 2:
                if focus == "boundary" or rng.random() < 0.25:
                    out.add((q, lz))
    return sorted(out)


def replay_moderate(report, runner_cfg, fmt, q, w, many, what, job):
    """Confirm a moderate-path counterexample on the real crate.  Returns True if it reproduces."""
    r = C.Runner(runner_cfg, "release")
    cmds = ["moderate %s %d %d %d" % (fmt, q, w, 1 if many else 0)]
    out = r.query(cmds)[0]
    if out == "panic":
        got = ("panic", None)
    else:
        mant, exp = [int(x) for x in out.split()]
        got = (mant, exp)
    F = specs.FORMATS[fmt]
    want = specs.rn_bits_decimal(fmt, w, q)
    want1 = specs.rn_bits_decimal(fmt, w + 1, q) if many else want
    payload = {"kind": "moderate_path", "config": runner_cfg, "fmt": fmt, "q": q, "w": w, "many": bool(many),
               "real_result": list(got), "correct_bits_w": want, "correct_bits_w_plus_1": want1, "what": what}
    reproduced = False
    detail = ""
    if got[0] == "panic":
        reproduced = True
        detail = "real moderate_path panics"
    elif got[1] >= 0:
        bits = got[0] | (got[1] << F["p1"])
        good = specs.interval_rounds_to(fmt, bits, w, q) if many else (bits == want)
        if not good:
            reproduced = True
            detail = "definite result 0x%x but RN(w*10^q)=0x%x RN((w+1)*10^q)=0x%x" % (bits, want, want1)
    else:
        # declined: confirm through parse_float on the decimal string in release and debug profiles
        digits = str(w)
        cmds = ["parse %s %s - %d" % (fmt, digits, q)]
        for prof in ("release", "dev"):
            rr = C.Runner(runner_cfg, prof)
            o = rr.query(cmds)[0]
            payload["parse_" + prof] = o
            if o == "panic" or int(o) != want:
                reproduced = True
                detail = "parse_float(%s e%d) [%s] -> %s, correct 0x%x" % (digits, q, prof, o, want)
    payload["detail"] = detail
    if reproduced:
        role = {"obligation": job, "many": bool(many), "fmt": fmt}
        if many and got[0] != "panic" and got[1] >= 0:
            bits = got[0] | (got[1] << F["p1"])
            role["cause"] = "truncation-budget" if (bits == want and bits != want1) or (bits != want and bits == want1) else "other"
        report.violation("%s %s q=%d w=%d many=%s: %s" % (job, fmt, q, w, many, detail), payload, role)
    return reproduced


def run_lemire(report, tier, seed, fmts=("f64", "f32"), strict=False, focus=None, timeout=None, classes=None):
    mp = C.mir_path("default", False)
    timeout = timeout or (20 if tier == "quick" else 60)
    jobs = []
    for fmt in fmts:
        cl = classes[fmt] if classes else lemire_classes(fmt, tier, seed, focus)
        for (q, lz) in cl:
            jobs.append((J.job_lemire_cf, (mp, fmt, q, lz, timeout, seed, strict)))
        # compute_error (only reached for truncated, i.e. 19-digit significands: lz in 0..4)
        qlo, qhi = table_range(fmt)
        rng = random.Random(seed + 17)
        if focus is None:
            for q in range(qlo, qhi + 1):
                for lz in (range(5) if tier == "thorough" else [rng.randrange(5)]):
                    jobs.append((J.job_lemire_ce, (mp, fmt, q, lz, timeout, seed)))
            jobs.append((J.job_lemire_glue, (mp, fmt, timeout)))
            jobs.append((J.job_lemire_early, (mp, fmt, timeout)))
    res = pool.run_jobs(jobs, progress=2000)
    consume(report, res, "default", "lemire")
    report.functions.update(["lemire::lemire", "lemire::compute_float", "lemire::compute_error",
                             "lemire::compute_error_scaled", "lemire::compute_product_approx",
                             "lemire::full_multiplication", "lemire::power", "POWER_OF_FIVE_128 (compiled bytes)"])
    return res


def bell_classes(fmt, tier, seed):
    qs = list(range(BELL_Q[0] - 1, BELL_Q[1] + 2))
    rng = random.Random(seed * 104729 + (3 if fmt == "f64" else 4))
    out = []
    if tier == "thorough":
        lzs = [0, 1, 2, 3, 4, 5, 8, 11, 16, 24, 32, 40, 48, 56, 62, 63]
        for q in qs:
            for lz in lzs:
                out.append((q, lz, 0))
                if lz <= 4:
                    out.append((q, lz, 1))
        return out
    for q in qs:
        out.append((q, rng.choice([0, 1, 2, 3]), rng.randrange(2)))
        if rng.random() < 0.3:
            out.append((q, rng.randrange(4, 64), 0))
    # quick: one format per class (alternating, seeded); both formats are covered across the q range
    pick = "f64" if fmt == "f64" else "f32"
    return [c for i, c in enumerate(out) if ((i + seed) % 2 == 0) == (pick == "f64")]


def run_bell(report, tier, seed, fmts=("f64", "f32"), timeout=None, classes=None, strict=False):
    mp = C.mir_path("compact", False)
    timeout = timeout or (20 if tier == "quick" else 60)
    jobs = []
    for fmt in fmts:
        cl = classes[fmt] if classes else bell_classes(fmt, tier, seed)
        for (q, lz, many) in cl:
            # when digits were truncated parse_number delivers 10^18 <= w < 10^19; the full-u64 claim (C11)
            # is made for many = false only
            wmax = 10 ** 19 - 1 if many else None
            jobs.append((J.job_bell, (mp, fmt, q, lz, many, timeout, seed, wmax, strict)))
    res = pool.run_jobs(jobs, progress=1000)
    consume(report, res, "compact", "bell")
    report.functions.update(["bellerophon::bellerophon", "bellerophon::normalize", "bellerophon::mul",
                             "bellerophon::error_is_accurate", "BellerophonPowers::get_small/get_large/get_small_int",
                             "rounding::round", "rounding::round_nearest_tie_even", "mask::lower_n_mask",
                             "mask::lower_n_halfway", "mask::nth_bit", "BASE10_* tables (compiled constants)"])
    return res


def consume(report, results, runner_cfg, label):
    n = len(results)
    ok = 0
    by = {}
    for r in results:
        report.queries += r.get("stats", {}).get("queries", 0)
        report.solver_s += r.get("stats", {}).get("solver_s", 0.0)
        key = (r["job"], r.get("fmt"))
        d = by.setdefault(key, {"n": 0, "holds": 0, "leaves": 0})
        d["n"] += 1
        d["leaves"] += r.get("leaves", 0) or 0
        st = r["status"]
        if st == "holds":
            ok += 1
            d["holds"] += 1
            if r.get("leaves"):
                report.sample({k: r[k] for k in ("job", "fmt", "q", "lz", "many", "leaves", "kinds") if k in r})
        elif st == "violated":
            m = r.get("model") or {}
            w = m.get("w")
            desc = "%s %s q=%s lz=%s many=%s model=%s %s" % (r["job"], r.get("fmt"), r.get("q"), r.get("lz"),
                                                            r.get("many"), m, r.get("detail", ""))
            if w is None:
                # structural violation (glue / early-out): no concrete input to replay
                payload = dict(r)
                payload.pop("tb", None)
                report.violation(desc, payload, {"obligation": r["job"], "fmt": r.get("fmt")})
                continue
            rep = replay_moderate(report, runner_cfg, r["fmt"], r["q"], int(w), bool(r.get("many", 0)), desc, r["job"])
            if not rep:
                report.undecided("counterexample did not reproduce on the real crate: " + desc,
                                 {"obligation": r["job"], "nonrepro": True})
        elif st == "unknown":
            report.undecided("%s %s q=%s lz=%s many=%s: solver portfolio gave no verdict" % (
                r["job"], r.get("fmt"), r.get("q"), r.get("lz"), r.get("many")),
                {"obligation": r["job"], "fmt": r.get("fmt"), "q": r.get("q"), "lz": r.get("lz"),
                 "strict_debug": r.get("strict_debug", False)})
        else:
            report.error("%s %s q=%s lz=%s: %s" % (r["job"], r.get("fmt"), r.get("q"), r.get("lz"), r.get("detail")))
    for (job, fmt), d in sorted(by.items(), key=lambda kv: str(kv[0])):
        report.group("%s/%s/%s" % (label, job, fmt), d["n"], d["holds"], {"paths_total": d["leaves"]})
    return ok == n


# --------------------------------------------------------------------------
# translator validation: MIR interpreter (concrete inputs) vs the real compiled function
# --------------------------------------------------------------------------

def validate_translator(report, config, seed, n=400):
    """Run concrete inputs through (a) the real function (runner) and (b) the MIR interpreter."""
    from mir2smt import terms as T
    from mir2smt.symex import Executor, VInt, VBool, VTuple, Boxed
    mp = C.mir_path(config, False)
    mir = J.get_mir(mp)
    rng = random.Random(seed * 31 + 5)
    runner = C.Runner(config, "release")
    cases = []
    # the repository's own vectors for the moderate path are exercised through `moderate`
    for fmt in ("f64", "f32"):
        qlo, qhi = (BELL_Q if "compact" in config else table_range(fmt))
        for _ in range(n // 2):
            q = rng.randint(qlo - 3, qhi + 3)
            bits = rng.randint(1, 64)
            w = rng.getrandbits(bits) | (1 << (bits - 1))
            if rng.random() < 0.2:
                # near-halfway style inputs
                w = (rng.getrandbits(53) << rng.randint(0, 10)) | (1 << rng.randint(0, 9))
                w &= (1 << 64) - 1
            many = rng.random() < 0.3
            if many and w >= (1 << 64) - 1:
                many = False
            cases.append((fmt, q, w or 1, many))
    outs = runner.query(["moderate %s %d %d %d" % (f, q, w, 1 if m else 0) for (f, q, w, m) in cases])
    bad = 0
    entry = "bellerophon" if "compact" in config else "lemire"
    for (fmt, q, w, many), o in zip(cases, outs):
        T.reset()
        ex = Executor(mir, fmt)
        num = VTuple([VInt(T.const(q), 32, True), VInt(T.const(w), 64, False), VBool(T.boolc(many))], "Number")
        leaves = ex.call(entry, [Boxed(num)])
        if len(leaves) != 1 or leaves[0].kind != "return":
            got = "panic" if leaves and leaves[0].kind == "panic" else "multi"
        else:
            v = leaves[0].value
            got = "%d %d" % (T.evaluate(v.items[0].t, {}), T.evaluate(v.items[1].t, {}))
        if got != o:
            bad += 1
            report.error("translator validation: %s(%s q=%d w=%d many=%s): real=%s mir=%s" % (entry, fmt, q, w, many, o, got))
            if bad > 5:
                break
    report.group("translator-validation/%s" % config, len(cases), len(cases) - bad,
                 {"entry": entry, "note": "concrete inputs through the MIR interpreter must equal the compiled function bit for bit"})
    return bad == 0


# --------------------------------------------------------------------------
# Kani groups (engine E2)
# --------------------------------------------------------------------------

def run_kani(report, crate, config, harnesses, label, timeout=600, lanes=None, role_extra=None, cover_required=True):
    from . import kani as K
    res = K.run_many(crate, config, harnesses, lanes=lanes, timeout=timeout)
    ok = 0
    tot_t = 0.0
    for r in res:
        tot_t += r.get("time_s") or 0.0
        report.queries += 1
        if r["status"] == "holds":
            if cover_required and r["covers_unsat"]:
                report.error("vacuity witness unsatisfied in %s: %s" % (r["harness"], r["covers_unsat"][:3]))
                continue
            ok += 1
            report.sample({"kani_harness": r["harness"], "config": config, "cbmc_s": r.get("time_s"),
                           "covers_satisfied": r.get("covers_sat")})
        elif r["status"] == "failed":
            desc = "Kani harness %s (%s) failed: %s" % (r["harness"], config, r["failed_checks"][:3])
            rep, src, log = K.replay(crate, config, r["harness"])
            role = {"obligation": "kani", "harness": r["harness"].split("::")[-1], "config": config}
            role.update(role_extra or {})
            if rep:
                report.violation(desc, {"kind": "kani", "crate": crate, "config": config, "harness": r["harness"],
                                        "failed_checks": r["failed_checks"][:10], "playback_test": src,
                                        "playback_log": log[-1500:]}, role)
            else:
                # standard-level UB (e.g. an out-of-bounds pointer) does not reproduce as a failing test
                ub = [c for c in r["failed_checks"] if re.search(r"pointer|dereference|memcpy|out of bounds|overlap|invalid", c["desc"] + c["check"])]
                if ub:
                    report.violation(desc + " [memory-safety check; counterexample not observable natively]",
                                     {"kind": "kani", "crate": crate, "config": config, "harness": r["harness"],
                                      "failed_checks": r["failed_checks"][:10], "playback_test": src,
                                      "playback_log": log[-1500:], "note": "UB-class failure, triaged by check kind"}, role)
                else:
                    report.undecided("Kani counterexample for %s did not reproduce natively: %s" % (r["harness"], r["failed_checks"][:2]),
                                     {"obligation": "kani", "nonrepro": True})
        else:
            report.undecided("Kani harness %s (%s): no verdict (%s)" % (r["harness"], config, r.get("tail", "")[-200:].replace("\n", " ")),
                             {"obligation": "kani", "harness": r["harness"].split("::")[-1], "config": config})
    report.solver_s += tot_t
    report.group("%s/%s" % (label, config), len(res), ok, {"harnesses": [r["harness"] for r in res][:40]})
    return res
