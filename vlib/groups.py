"""Obligation groups built on the MIR engine (E1) and Kani (E2): selection of (format, q, lz) classes per tier,
running them in the pool, replaying counterexamples on the real crate, recording into a Report."""
import random
import re
import time

from mir2smt import specs
from . import common as C
from . import mirjobs as J
from . import pool

import os as _os

_ONLY = [g for g in (_os.environ.get("VERIF_ONLY_GROUPS") or "").split(",") if g]


def _skip(report, name):
    """VERIF_ONLY_GROUPS=<a,b,..> restricts a run to some obligation groups (used when replaying seeded changes;
    the evidence then says so).  Never set by the commands registered in MANIFEST.json."""
    if _ONLY and name not in _ONLY:
        report.extra.setdefault("groups_skipped_by_VERIF_ONLY_GROUPS", []).append(name)
        return True
    return False


F64_Q = (-342, 308)
F32_Q = (-65, 38)
BELL_Q = (-350, 309)


def table_range(fmt):
    return F64_Q if fmt == "f64" else F32_Q


def lemire_classes(fmt, tier, seed, focus=None):
    """(q, lz) classes for compute_float.  thorough: all.  quick: every q at lz=0 and at two seeded lz,
    plus every class whose result can be subnormal / zero / infinite (boundary set)."""
    qlo, qhi = table_range(fmt)
    qs = list(range(qlo - 1, qhi + 2))
    if tier == "thorough":
        return [(q, lz) for q in qs for lz in range(64)]
    rng = random.Random(seed * 7919 + (1 if fmt == "f64" else 2))
    out = set()
    for q in qs:
        out.add((q, 0))
        out.add((q, rng.randrange(1, 64)))
        out.add((q, rng.randrange(1, 64)))
    # boundary classes: decimal magnitude near the ends of the range
    F = specs.FORMATS[fmt]
    for q in qs:
        for lz in range(0, 64, 1):
            # log2(w*10^q) for w in class
            approx = (63 - lz) + q * 3.321928094887362
            emin = 1 - F["bias"] - 2          # around the smallest subnormal
            enorm = 1 - F["bias"] + F["p1"]   # smallest normal
            emax = F["inf"] - 1 - F["bias"] + F["p1"] + 1
            if emin - 3 <= approx <= enorm + 2 or emax - 3 <= approx <= emax + 2:
                if focus == "boundary" or rng.random() < 0.25:
                    out.add((q, lz))
    return sorted(out)


def lemire_threshold_classes(fmt, step=1):
    """Classes within a few bits of the places where compute_float changes regime: the round-to-zero threshold, the
    64-bit subnormal shift limit (2^-64 below the smallest normal), and the overflow threshold."""
    F = specs.FORMATS[fmt]
    zero_t = -F["bias"]
    min_norm = 1 - F["bias"] + F["p1"]
    inf_t = F["inf"] - 1 - F["bias"] + F["p1"] + 1
    qlo, qhi = table_range(fmt)
    out = []
    for q in range(qlo, qhi + 1):
        for lz in range(64):
            approx = (63 - lz) + q * 3.321928094887362
            if zero_t - 3 <= approx <= zero_t + 2 or min_norm - 67 <= approx <= min_norm - 61 or inf_t - 2 <= approx <= inf_t + 2:
                out.append((q, lz))
    return out[::step]


def replay_moderate(report, runner_cfg, fmt, q, w, many, what, job):
    """Confirm a moderate-path counterexample on the real crate.  Returns True if it reproduces."""
    r = C.Runner(runner_cfg, "release")
    cmds = ["moderate %s %d %d %d" % (fmt, q, w, 1 if many else 0)]
    out = r.query(cmds)[0]
    if out == "panic":
        got = ("panic", None)
    else:
        mant, exp = [int(x) for x in out.split()]
        got = (mant, exp)
    F = specs.FORMATS[fmt]
    want = specs.rn_bits_decimal(fmt, w, q)
    want1 = specs.rn_bits_decimal(fmt, w + 1, q) if many else want
    payload = {"kind": "moderate_path", "config": runner_cfg, "fmt": fmt, "q": q, "w": w, "many": bool(many),
               "real_result": list(got), "correct_bits_w": want, "correct_bits_w_plus_1": want1, "what": what}
    reproduced = False
    detail = ""
    if got[0] == "panic":
        reproduced = True
        detail = "real moderate_path panics"
    elif got[1] >= 0:
        bits = got[0] | (got[1] << F["p1"])
        good = specs.interval_rounds_to(fmt, bits, w, q) if many else (bits == want)
        if not good:
            reproduced = True
            detail = "definite result 0x%x but RN(w*10^q)=0x%x RN((w+1)*10^q)=0x%x" % (bits, want, want1)
    else:
        # declined: confirm through parse_float on the decimal string in release and debug profiles
        digits = str(w)
        cmds = ["parse %s %s - %d" % (fmt, digits, q)]
        for prof in ("release", "dev"):
            rr = C.Runner(runner_cfg, prof)
            o = rr.query(cmds)[0]
            payload["parse_" + prof] = o
            if o == "panic" or int(o) != want:
                reproduced = True
                detail = "parse_float(%s e%d) [%s] -> %s, correct 0x%x" % (digits, q, prof, o, want)
    payload["detail"] = detail
    if reproduced:
        role = {"obligation": job, "many": bool(many), "fmt": fmt}
        if many and got[0] != "panic" and got[1] >= 0:
            bits = got[0] | (got[1] << F["p1"])
            role["cause"] = "truncation-budget" if (bits == want and bits != want1) or (bits != want and bits == want1) else "other"
        report.violation("%s %s q=%d w=%d many=%s: %s" % (job, fmt, q, w, many, detail), payload, role)
    return reproduced


def replay_fast(report, runner_cfg, fmt, q, w, many, what):
    """Confirm a fast-path counterexample on the real crate: Some(bits) must be RN(w * 10^q) and never for truncated input."""
    r = C.Runner(runner_cfg, "release")
    out = r.query(["fast %s %d %d %d" % (fmt, q, w, 1 if many else 0)])[0]
    want = specs.rn_bits_decimal(fmt, w, q)
    payload = {"kind": "fast_path", "config": runner_cfg, "fmt": fmt, "q": q, "w": w, "many": bool(many),
               "real_result": out, "correct_bits": want, "what": what}
    bad = False
    if out == "panic":
        bad = True
    elif out.startswith("some"):
        bits = int(out.split()[1])
        bad = many or bits != want
        payload["detail"] = "try_fast_path returned 0x%x, correct 0x%x%s" % (bits, want, " (and digits were truncated)" if many else "")
    if bad:
        report.violation("fast_path %s q=%d w=%d many=%s: %s" % (fmt, q, w, many, payload.get("detail", out)), payload,
                         {"obligation": "fast_path", "fmt": fmt})
    return bad


def run_lemire(report, tier, seed, fmts=("f64", "f32"), strict=False, focus=None, timeout=None, classes=None):
    if _skip(report, "lemire"):
        return []
    mp = C.mir_path("default", False)
    timeout = timeout or (20 if tier == "quick" else 60)
    jobs = []
    for fmt in fmts:
        cl = classes[fmt] if classes else lemire_classes(fmt, tier, seed, focus)
        for (q, lz) in cl:
            jobs.append((J.job_lemire_cf, (mp, fmt, q, lz, timeout, seed, strict)))
        # compute_error (only reached for truncated, i.e. 19-digit significands: lz in 0..4)
        qlo, qhi = table_range(fmt)
        rng = random.Random(seed + 17)
        if focus is None:
            for q in range(qlo, qhi + 1):
                for lz in (range(5) if tier == "thorough" else [rng.randrange(5)]):
                    jobs.append((J.job_lemire_ce, (mp, fmt, q, lz, timeout, seed)))
            jobs.append((J.job_lemire_glue, (mp, fmt, timeout)))
            jobs.append((J.job_lemire_early, (mp, fmt, timeout)))
    res = pool.run_jobs(jobs, progress=2000)
    consume(report, res, "default", "lemire")
    report.functions.update(["lemire::lemire", "lemire::compute_float", "lemire::compute_error",
                             "lemire::compute_error_scaled", "lemire::compute_product_approx",
                             "lemire::full_multiplication", "lemire::power", "POWER_OF_FIVE_128 (compiled bytes)"])
    return res


def bell_classes(fmt, tier, seed):
    qs = list(range(BELL_Q[0] - 1, BELL_Q[1] + 2))
    rng = random.Random(seed * 104729 + (3 if fmt == "f64" else 4))
    out = []
    if tier == "thorough":
        lzs = [0, 1, 2, 3, 4, 5, 8, 11, 16, 24, 32, 40, 48, 56, 62, 63]
        for q in qs:
            for lz in lzs:
                out.append((q, lz, 0))
                if lz <= 4:
                    out.append((q, lz, 1))
        return out
    for q in qs:
        out.append((q, rng.choice([0, 1, 2, 3]), rng.randrange(2)))
        if rng.random() < 0.3:
            out.append((q, rng.randrange(4, 64), 0))
    # quick: one format per class (alternating, seeded); both formats are covered across the q range
    pick = "f64" if fmt == "f64" else "f32"
    return [c for i, c in enumerate(out) if ((i + seed) % 2 == 0) == (pick == "f64")]


def bell_threshold_classes(fmt, step=1):
    """Bellerophon classes whose value lies within a few bits of the round-to-zero or the overflow threshold."""
    F = specs.FORMATS[fmt]
    zero_t = -F["bias"]                 # 2^-bias = half the smallest subnormal
    inf_t = F["inf"] - 1 - F["bias"] + F["p1"] + 1
    out = []
    for q in range(BELL_Q[0], BELL_Q[1] + 1):
        for lz in range(64):
            approx = (63 - lz) + q * 3.321928094887362
            if zero_t - 4 <= approx <= zero_t + 3 or inf_t - 2 <= approx <= inf_t + 2:
                out.append((q, lz, 0))
    return out[::step]


def bell_subnormal_truncated_classes(fmt, step=1):
    """Truncated (19-digit) significands whose value is subnormal or just below: the two-pass wrapper's corner."""
    F = specs.FORMATS[fmt]
    zero_t = -F["bias"]
    out = []
    for q in range(BELL_Q[0], BELL_Q[1] + 1):
        for lz in range(5):
            approx = (63 - lz) + q * 3.321928094887362
            if zero_t - 3 <= approx <= zero_t + F["p1"] + 4:
                out.append((q, lz, 1))
    return out[::step]


def bell_normal_boundary_classes(fmt, step=1):
    """Untruncated classes within a few binades of the smallest normal: where error_is_accurate / round switch between the
    normal and the subnormal treatment (the halfway test must read exactly the bits that rounding drops)."""
    F = specs.FORMATS[fmt]
    min_norm = 1 - F["bias"] + F["p1"]
    out = []
    for q in range(BELL_Q[0], BELL_Q[1] + 1):
        for lz in range(64):
            approx = (63 - lz) + q * 3.321928094887362
            if min_norm - 3 <= approx <= min_norm + 2:
                out.append((q, lz, 0))
    return out[::step]


def run_bell(report, tier, seed, fmts=("f64", "f32"), timeout=None, classes=None, strict=False):
    if _skip(report, "bell"):
        return []
    mp = C.mir_path("compact", False)
    # a few classes next to the overflow threshold need 40-60 s in cvc5 (single path); everything else ~1 s
    timeout = timeout or 150
    jobs = []
    for fmt in fmts:
        cl = classes[fmt] if classes else bell_classes(fmt, tier, seed)
        for (q, lz, many) in cl:
            # when digits were truncated parse_number delivers 10^18 <= w < 10^19; the full-u64 claim (C11)
            # is made for many = false only
            wmax = 10 ** 19 - 1 if many else None
            jobs.append((J.job_bell, (mp, fmt, q, lz, many, timeout, seed, wmax, strict)))
        jobs.append((J.job_bell_early, (mp, fmt, 60)))
    res = pool.run_jobs(jobs, progress=1000)
    consume(report, res, "compact", "bell")
    report.functions.update(["bellerophon::bellerophon", "bellerophon::normalize", "bellerophon::mul",
                             "bellerophon::error_is_accurate", "BellerophonPowers::get_small/get_large/get_small_int",
                             "rounding::round", "rounding::round_nearest_tie_even", "mask::lower_n_mask",
                             "mask::lower_n_halfway", "mask::nth_bit", "BASE10_* tables (compiled constants)"])
    return res


def consume(report, results, runner_cfg, label):
    n = len(results)
    ok = 0
    by = {}
    for r in results:
        report.queries += r.get("stats", {}).get("queries", 0)
        report.solver_s += r.get("stats", {}).get("solver_s", 0.0)
        key = (r["job"], r.get("fmt"))
        d = by.setdefault(key, {"n": 0, "holds": 0, "leaves": 0})
        d["n"] += 1
        d["leaves"] += r.get("leaves", 0) or 0
        st = r["status"]
        if r.get("debug_shift") == "unknown":
            report.undecided("%s %s q=%s lz=%s: reachability of the all-ones fallback leaf with exponent below round()'s "
                             "debug assertion is undecided" % (r["job"], r.get("fmt"), r.get("q"), r.get("lz")),
                             {"obligation": "lemire_debug_shift"})
        elif r.get("debug_shift") == "violated":
            wv = (r.get("debug_shift_model") or {}).get("w")
            rr = C.Runner(runner_cfg, "dev")
            o = rr.query(["parse %s %s - %d" % (r["fmt"], wv, r["q"])])[0] if wv is not None else "?"
            if o == "panic":
                report.violation("debug build panics: parse_float(%s e%d) as %s" % (wv, r["q"], r["fmt"]),
                                 {"kind": "debug_panic", "fmt": r["fmt"], "q": r["q"], "w": wv, "config": runner_cfg},
                                 {"obligation": "lemire_debug_shift", "fmt": r["fmt"]})
            else:
                report.undecided("debug-shift counterexample did not reproduce (w=%s q=%s)" % (wv, r["q"]),
                                 {"obligation": "lemire_debug_shift", "nonrepro": True})
        if st == "holds":
            ok += 1
            d["holds"] += 1
            if r.get("leaves"):
                report.sample({k: r[k] for k in ("job", "fmt", "q", "lz", "many", "leaves", "kinds") if k in r})
        elif st == "violated":
            m = r.get("model") or {}
            w = m.get("w")
            desc = "%s %s q=%s lz=%s many=%s model=%s %s" % (r["job"], r.get("fmt"), r.get("q"), r.get("lz"),
                                                            r.get("many"), m, r.get("detail", ""))
            if w is not None and m.get("q") is not None and r.get("q") is None:
                r = dict(r, q=int(m["q"]), many=bool(m.get("many", False)))
            if w is None:
                # structural violation (glue / early-out): no concrete input to replay
                payload = dict(r)
                payload.pop("tb", None)
                report.violation(desc, payload, {"obligation": r["job"], "fmt": r.get("fmt")})
                continue
            if r["job"] == "fast_path":
                rep = replay_fast(report, runner_cfg, r["fmt"], r["q"], int(w), bool(m.get("many", False)), desc)
                # further solver witnesses of the same violated contract (disjoint windows of w), until one reproduces
                for m2 in ([] if rep else r.get("more_models") or []):
                    if m2.get("w") is None:
                        continue
                    rep = replay_fast(report, runner_cfg, r["fmt"], r["q"], int(m2["w"]), bool(m2.get("many", False)),
                                      desc + " (further witness w=%s)" % m2["w"])
                    if rep:
                        break
            else:
                rep = replay_moderate(report, runner_cfg, r["fmt"], r["q"], int(w), bool(r.get("many", 0)), desc, r["job"])
            if not rep:
                report.undecided("counterexample did not reproduce on the real crate: " + desc,
                                 {"obligation": r["job"], "nonrepro": True})
        elif st == "unknown":
            report.undecided("%s %s q=%s lz=%s many=%s: solver portfolio gave no verdict" % (
                r["job"], r.get("fmt"), r.get("q"), r.get("lz"), r.get("many")),
                {"obligation": r["job"], "fmt": r.get("fmt"), "q": r.get("q"), "lz": r.get("lz"),
                 "strict_debug": r.get("strict_debug", False)})
        else:
            report.error("%s %s q=%s lz=%s: %s" % (r["job"], r.get("fmt"), r.get("q"), r.get("lz"), r.get("detail")))
    for (job, fmt), d in sorted(by.items(), key=lambda kv: str(kv[0])):
        report.group("%s/%s/%s" % (label, job, fmt), d["n"], d["holds"], {"paths_total": d["leaves"]})
    return ok == n


# --------------------------------------------------------------------------
# translator validation: MIR interpreter (concrete inputs) vs the real compiled function
# --------------------------------------------------------------------------

def validate_translator(report, config, seed, n=400):
    """Run concrete inputs through (a) the real function (runner) and (b) the MIR interpreter."""
    if _skip(report, "translator"):
        return []
    from mir2smt import terms as T
    from mir2smt.symex import Executor, VInt, VBool, VTuple, Boxed
    mp = C.mir_path(config, False)
    mir = J.get_mir(mp)
    rng = random.Random(seed * 31 + 5)
    runner = C.Runner(config, "release")
    cases = []
    # the repository's own vectors for the moderate path are exercised through `moderate`
    for fmt in ("f64", "f32"):
        qlo, qhi = (BELL_Q if "compact" in config else table_range(fmt))
        for _ in range(n // 2):
            q = rng.randint(qlo - 3, qhi + 3)
            bits = rng.randint(1, 64)
            w = rng.getrandbits(bits) | (1 << (bits - 1))
            if rng.random() < 0.2:
                # near-halfway style inputs
                w = (rng.getrandbits(53) << rng.randint(0, 10)) | (1 << rng.randint(0, 9))
                w &= (1 << 64) - 1
            many = rng.random() < 0.3
            if many and w >= (1 << 64) - 1:
                many = False
            cases.append((fmt, q, w or 1, many))
    outs = runner.query(["moderate %s %d %d %d" % (f, q, w, 1 if m else 0) for (f, q, w, m) in cases])
    bad = 0
    entry = "bellerophon" if "compact" in config else "lemire"
    for (fmt, q, w, many), o in zip(cases, outs):
        T.reset()
        ex = Executor(mir, fmt)
        num = VTuple([VInt(T.const(q), 32, True), VInt(T.const(w), 64, False), VBool(T.boolc(many))], "Number")
        leaves = ex.call(entry, [Boxed(num)])
        if len(leaves) != 1 or leaves[0].kind != "return":
            got = "panic" if leaves and leaves[0].kind == "panic" else "multi"
        else:
            v = leaves[0].value
            got = "%d %d" % (T.evaluate(v.items[0].t, {}), T.evaluate(v.items[1].t, {}))
        if got != o:
            bad += 1
            report.error("translator validation: %s(%s q=%d w=%d many=%s): real=%s mir=%s" % (entry, fmt, q, w, many, o, got))
            if bad > 5:
                break
    report.group("translator-validation/%s" % config, len(cases), len(cases) - bad,
                 {"entry": entry, "note": "concrete inputs through the MIR interpreter must equal the compiled function bit for bit"})
    return bad == 0


# --------------------------------------------------------------------------
# Kani groups (engine E2)
# --------------------------------------------------------------------------

PANIC_CLASS = re.compile(r"attempt to .* with overflow|attempt to (divide|calculate the remainder)|panicked|"
                         r"called `Option::unwrap\(\)` on a `None` value|assertion failed|unwrap|expect|"
                         r"shift (left|right) with overflow|This is a placeholder message for a Kani panic")
MEMORY_CLASS = re.compile(r"pointer|dereference|memcpy|memmove|out of bounds|overlap|invalid|NULL|dead object|"
                          r"deallocated|misaligned|index out of bounds|slice|get_unchecked|assume_init|safety contract|undefined", re.I)


def run_kani(report, crate, config, harnesses, label, timeout=600, lanes=None, role_extra=None, cover_required=True,
             extra=(), accept_panics=False):
    from . import kani as K
    res = K.run_many(crate, config, harnesses, lanes=lanes, timeout=timeout, extra=extra)
    ok = 0
    tot_t = 0.0
    # optional vacuity witnesses ("opt:" prefix) must be satisfiable in at least one harness of the group
    opt_sat = set()
    opt_all = set()
    for r in res:
        for d in r.get("covers_sat_desc", []):
            if d.startswith("opt:"):
                opt_sat.add(d)
                opt_all.add(d)
        for d in r.get("covers_unsat", []):
            if d.startswith("opt:"):
                opt_all.add(d)
    for d in sorted(opt_all - opt_sat):
        report.error("vacuity witness never satisfied in group %s/%s: %s" % (label, config, d))
    for r in res:
        tot_t += r.get("time_s") or 0.0
        report.queries += 1
        if r["status"] == "holds":
            req_unsat = [d for d in r["covers_unsat"] if not d.startswith("opt:")]
            if cover_required and req_unsat:
                report.error("vacuity witness unsatisfied in %s: %s" % (r["harness"], req_unsat[:3]))
                continue
            ok += 1
            report.sample({"kani_harness": r["harness"], "config": config, "cbmc_s": r.get("time_s"),
                           "covers_satisfied": r.get("covers_sat")})
        elif r["status"] == "failed" and accept_panics and r["failed_checks"] and all(
                PANIC_CLASS.search(c["desc"]) and not MEMORY_CLASS.search(c["desc"]) for c in r["failed_checks"]):
            # arbitrary-input harness: clean panics are an accepted outcome; every memory-safety check passed
            ok += 1
            report.sample({"kani_harness": r["harness"], "config": config, "clean_panics_accepted": len(r["failed_checks"])})
        elif r["status"] == "failed":
            desc = "Kani harness %s (%s) failed: %s" % (r["harness"], config, r["failed_checks"][:3])
            rep, src, log = K.replay(crate, config, r["harness"], extra=extra)
            stubbed = "stubbing" in extra
            role = {"obligation": "kani", "harness": r["harness"].split("::")[-1], "config": config}
            role.update(role_extra or {})
            if rep:
                report.violation(desc, {"kind": "kani", "crate": crate, "config": config, "harness": r["harness"],
                                        "failed_checks": r["failed_checks"][:10], "playback_test": src,
                                        "playback_log": log[-1500:]}, role)
            else:
                # standard-level UB (e.g. an out-of-bounds pointer) does not reproduce as a failing test
                ub = [c for c in r["failed_checks"] if re.search(r"pointer|dereference|memcpy|out of bounds|overlap|invalid", c["desc"] + c["check"])]
                if stubbed and not ub:
                    # trace-stub harnesses cannot be replayed natively (the stubs exist only under Kani): the failing
                    # assertion over the logged call trace is the evidence
                    report.violation(desc + " [trace-stub harness: not natively replayable]",
                                     {"kind": "kani", "crate": crate, "config": config, "harness": r["harness"],
                                      "failed_checks": r["failed_checks"][:10], "playback_test": src,
                                      "playback_log": log[-1500:]}, role)
                elif ub:
                    report.violation(desc + " [memory-safety check; counterexample not observable natively]",
                                     {"kind": "kani", "crate": crate, "config": config, "harness": r["harness"],
                                      "failed_checks": r["failed_checks"][:10], "playback_test": src,
                                      "playback_log": log[-1500:], "note": "UB-class failure, triaged by check kind"}, role)
                else:
                    report.undecided("Kani counterexample for %s did not reproduce natively: %s" % (r["harness"], r["failed_checks"][:2]),
                                     {"obligation": "kani", "nonrepro": True})
        else:
            report.undecided("Kani harness %s (%s): no verdict (%s)" % (r["harness"], config, r.get("tail", "")[-200:].replace("\n", " ")),
                             {"obligation": "kani", "harness": r["harness"].split("::")[-1], "config": config})
    report.solver_s += tot_t
    report.group("%s/%s" % (label, config), len(res), ok, {"harnesses": [r["harness"] for r in res][:40]})
    return res


# --------------------------------------------------------------------------
# tables (engine E3)
# --------------------------------------------------------------------------

def run_tables(report, configs=("default", "compact")):
    if _skip(report, "tables"):
        return []
    from . import tables as TB
    jobs = []
    if "default" in configs:
        mp = C.mir_path("default", False)
        jobs += [(TB.job_lemire_table, (mp,)), (TB.job_small_tables, (mp,)), (TB.job_power_formula, (mp,))]
    if "compact" in configs:
        mpc = C.mir_path("compact", False)
        jobs += [(TB.job_bellerophon_tables, (mpc,))]
    res = pool.run_jobs(jobs)
    ok = 0
    for r in res:
        report.queries += 1
        if r["status"] == "holds":
            ok += 1
            report.sample({k: r[k] for k in r if k in ("job", "entries", "checked", "smallest", "largest")})
        elif r["status"] == "violated":
            payload = dict(r)
            payload["kind"] = "table"
            report.violation("%s: %s" % (r["job"], r.get("detail")), payload, {"obligation": r["job"]})
        elif r["status"] == "unknown":
            report.undecided("%s: no verdict" % r["job"], {"obligation": r["job"]})
        else:
            report.error("%s: %s" % (r["job"], r.get("detail")))
    report.group("tables", len(res), ok)
    report.functions.update(["POWER_OF_FIVE_128", "SMALL_INT_POW5", "SMALL_INT_POW10", "SMALL_F32_POW10", "SMALL_F64_POW10",
                             "LARGE_POW5", "LARGE_POW5_STEP", "lemire::power", "BASE10_SMALL_MANTISSA", "BASE10_LARGE_MANTISSA",
                             "BASE10_SMALL_INT_POWERS", "BellerophonPowers::get_small", "BellerophonPowers::get_large"])
    return res


def run_kani_vec(report, tier, seed, which, config="default", lanes=None, name_filter=None):
    """which: subset of {'C13', 'C12'} (C12 includes the call-log stubbed harnesses)."""
    if _skip(report, "vec"):
        return []
    from . import kani as K, vecgen
    only = set(which) | ({"C12_stub"} if "C12" in which else set())
    src, names = vecgen.generate(tier, seed, only=only)
    K.set_generated("vec", {"src/instances.rs": src})
    hs = []
    for w in which:
        hs += names[w]
        if w == "C12":
            hs += names["C12_stub"]
    if name_filter:
        hs = [h for h in hs if re.search(name_filter, h)]
    if "alloc" in config:
        # Vec::extend_from_slice with an empty slice does not finish in CBMC (400 s timeouts); it is a no-op by inspection
        hs = [h for h in hs if not re.search(r"c13_extend_\d+_0$", h)]
        # the concrete-operand long_mul / pow runs do not fold on the heap vector (400 s timeouts): stack back-end only
        hs = [h for h in hs if "_concrete" not in h]
    timeout = 400 if tier == "quick" else 1500
    return run_kani(report, "vec", config, hs, "vec:" + "+".join(which), timeout=timeout, lanes=lanes or 14,
                    extra=("-Z", "stubbing"))


def run_kani_parse(report, tier, seed, which, config="default", lanes=None, accept_panics=False, minimal=False):
    """which: subset of {'pn', 'pn_rel', 'pn_iter', 'pm', 'any'}."""
    if _skip(report, "parse"):
        return []
    from . import kani as K, parsegen
    src, names = parsegen.generate(tier, seed, only=set(which), minimal=(minimal and tier == "quick"))
    K.set_generated("parse", {"src/instances.rs": src})
    hs = []
    for w in which:
        hs += names[w]
    return run_kani(report, "parse", config, hs, "parse:" + "+".join(which), timeout=900 if tier == "quick" else 2400,
                    lanes=lanes or 16, extra=("-Z", "stubbing"), accept_panics=accept_panics)


def run_kani_slow(report, tier, seed, fmts=("f64", "f32"), config="default"):
    if _skip(report, "slow"):
        return []
    from . import kani as K, slowgen
    files, names = slowgen.generate(tier, seed)
    K.set_generated("slow", files)
    hs = sorted(set(h for f in fmts for h in names[f]))
    return run_kani(report, "slow", config, hs, "slow-glue", timeout=900, lanes=8, extra=("-Z", "stubbing"))


def run_kani_frontend(report, tier, seed, config="default"):
    if _skip(report, "frontend"):
        return []
    from . import kani as K, fegen
    files, names = fegen.generate(tier, seed)
    K.set_generated("frontend", files)
    return run_kani(report, "frontend", config, names, "frontend", timeout=1200 if tier == "quick" else 3600, lanes=12)


def run_kani_core(report, tier, seed, prefixes, config="default"):
    if _skip(report, "core"):
        return []
    from . import kani as K
    hs = [h for h in K.list_harnesses("core") if any(h.split("::")[-1].startswith(p) for p in prefixes)]
    return run_kani(report, "core", config, hs, "core:" + "+".join(prefixes), timeout=600, lanes=8)


def run_fast_path(report, tier, seed, fmts=("f64", "f32")):
    if _skip(report, "fast"):
        return []
    mp = C.mir_path("default", False)
    jobs = []
    for fmt in fmts:
        lo, hi = (-24, 40) if fmt == "f64" else (-12, 20)
        for q in range(lo, hi + 1):
            jobs.append((J.job_fast_path, (mp, fmt, q, 30)))
    res = pool.run_jobs(jobs)
    consume(report, res, "default", "fast-path")
    report.functions.update(["Number::try_fast_path", "Number::is_fast_path", "num::int_pow_fast_path",
                             "Float::pow_fast_path", "Float::from_u64"])
    return res


def run_sticky(report):
    if _skip(report, "sticky"):
        return []
    from . import tables as TB
    mp = C.mir_path("default", False)
    r = TB.job_sticky_lemma((mp,))
    report.queries += 1
    if r["status"] == "holds":
        report.group("sticky-lemma", 1, 1, r.get("checked"))
        report.sample({"job": "sticky_lemma", "checked": r.get("checked")})
    elif r["status"] == "violated":
        report.group("sticky-lemma", 1, 0)
        report.violation("sticky lemma: " + r.get("detail", ""), dict(r, kind="table"), {"obligation": "sticky_lemma"})
    else:
        report.group("sticky-lemma", 1, 0)
        report.error("sticky lemma: %s" % r.get("detail"))
    return r


def run_capacity(report):
    if _skip(report, "capacity"):
        return []
    from . import tables as TB
    mp = C.mir_path("default", False)
    r = TB.job_capacity((mp,))
    report.queries += 1
    ok = r["status"] == "holds"
    report.group("capacity", 1, 1 if ok else 0, r.get("checked"))
    if ok:
        report.sample({"job": "capacity", "checked": r.get("checked")})
    elif r["status"] == "violated":
        report.violation("big-integer capacity: " + r.get("detail", ""), dict(r, kind="table"), {"obligation": "capacity"})
    else:
        report.error("capacity: %s" % r.get("detail"))
    return r


FORBID = ["#[kani::stub(std::alloc::alloc, crate::forbid_alloc)]",
          "#[kani::stub(std::alloc::alloc_zeroed, crate::forbid_alloc)]",
          "#[kani::stub(std::alloc::realloc, crate::forbid_realloc)]",
          "#[kani::stub(std::fmt::format, crate::forbid_format)]"]
FORBID_FN = """
/// C15: replacements for the global allocation entry points in configurations without `alloc`.
pub unsafe fn forbid_alloc(_layout: core::alloc::Layout) -> *mut u8 {
    panic!("HEAP-ALLOCATION");
}
pub unsafe fn forbid_realloc(_p: *mut u8, _layout: core::alloc::Layout, _n: usize) -> *mut u8 {
    panic!("HEAP-ALLOCATION");
}
/// `format!` builds a heap String: cut it off at the entry (its internals are very expensive for CBMC)
pub fn forbid_format(_args: core::fmt::Arguments<'_>) -> String {
    panic!("HEAP-ALLOCATION");
}
"""


def _with_forbid(src):
    """Add the allocation stubs to every generated proof harness."""
    attrs = "\n".join(FORBID)
    return src.replace("#[kani::proof]\n", "#[kani::proof]\n" + attrs + "\n")


def run_forbid_alloc(report, tier, seed):
    if _skip(report, "forbid"):
        return []
    from . import kani as K, parsegen, vecgen, slowgen
    # vacuity twin first: a harness that allocates must fail under the stub
    tw = K.run_batch("core", "default", ["alloc_twin::c15_twin_must_fail"], timeout=300, extra_args=("-Z", "stubbing"))
    if tw[0]["status"] != "failed" or not any("HEAP-ALLOCATION" in c["desc"] for c in tw[0]["failed_checks"]):
        report.error("forbid_alloc twin did not fail: the allocation stub is not effective (%s)" % tw[0]["status"])
    report.group("forbid-alloc/twin-must-fail", 1, 1 if tw[0]["status"] == "failed" else 0)
    libadd = "\n#[cfg(kani)]\npub use forbid::*;\n#[cfg(kani)]\nmod forbid {" + FORBID_FN + "}\n"
    # digit loops
    src, names = parsegen.generate(tier, seed, only={"pn", "pm"})
    lib = open(C.os.path.join(C.VERIF, "kani", "parse", "src", "lib.rs")).read() + libadd
    K.set_generated("parse", {"src/instances.rs": _with_forbid(src), "src/lib.rs": lib})
    hs = names["pn"][:8] + names["pm"]
    run_kani(report, "parse", "default", hs, "forbid-alloc/digit-loops", timeout=900, lanes=12, extra=("-Z", "stubbing"))
    K.set_generated("parse", {})
    # big-integer primitives incl. long multiplication and pow
    src, names = vecgen.generate("thorough" if tier == "thorough" else "quick", seed, only={"C12", "C12_stub"})
    lib = open(C.os.path.join(C.VERIF, "kani", "vec", "src", "lib.rs")).read() + libadd
    extra_lm = ""
    K.set_generated("vec", {"src/instances.rs": _with_forbid(src), "src/lib.rs": lib})
    hs = [h for h in names["C12"] + names["C12_stub"] if any(k in h for k in ("concrete", "pow_", "long_mul"))] + \
         [h for h in names["C12"] + names["C12_stub"] if any(k in h for k in ("large_add_from", "small_mul", "hi64_2", "hi64_62", "shl_limbs_2"))]
    run_kani(report, "vec", "default", hs[:40], "forbid-alloc/bigint", timeout=900, lanes=12, extra=("-Z", "stubbing"))
    K.set_generated("vec", {})
    # slow glue
    files, names = slowgen.generate(tier, seed)
    lib = open(C.os.path.join(C.VERIF, "kani", "slow", "src", "lib.rs")).read() + libadd
    files = dict(files)
    files["src/instances.rs"] = _with_forbid(files["src/instances.rs"])
    files["src/lib.rs"] = lib
    K.set_generated("slow", files)
    hs = sorted(set(names["f64"] + names["f32"]))
    run_kani(report, "slow", "default", hs, "forbid-alloc/slow-glue", timeout=900, lanes=8, extra=("-Z", "stubbing"))
    K.set_generated("slow", {})
    # syntactic side condition on the non-alloc MIR
    txt = C.mir_dump("default", False)
    hits = sorted(set(re.findall(r"(?:alloc::(?:vec|string|boxed|alloc)::[\\w:<>]+|std::vec::[\\w:]+|alloc::fmt::format)", txt)))
    report.extra["alloc_paths_in_default_mir"] = hits[:20]
    if hits:
        report.error("the default-feature MIR calls allocation-related paths: %r" % hits[:5])
