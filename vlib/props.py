"""Property -> obligations, per tier."""
import json

from . import common as C
from . import groups as G
from .report import Report

BASE_TRUST = ["rustc MIR dump is what gets compiled (E1)", "z3 5.1.0 / z3 4.8.12 / cvc5 1.0.3",
              "hand models of core integer intrinsics (validated against the compiled crate each run)",
              "python integer arithmetic in the replay oracle"]


def check_C11(tier, seed):
    rp = Report("C11", tier, seed)
    rp.trusted.update(BASE_TRUST)
    G.validate_translator(rp, "default", seed, 300 if tier == "quick" else 1500)
    G.validate_translator(rp, "compact", seed, 300 if tier == "quick" else 1500)
    G.run_lemire(rp, tier, seed)
    G.run_bell(rp, tier, seed)
    rp.bounds += [
        "Eisel-Lemire: w ranges over ALL values of each leading-zero class in every query; decimal exponents "
        "[-343, 309] concretely, all other i32 exponents through the symbolic-q early-out query + ground threshold facts",
        "quick tier: every q at lz=0 and two seeded lz, plus a seeded quarter of the boundary classes; thorough: all 64 lz",
        "Bellerophon: q in [-351, 310]; truncated (many_digits) case restricted to w < 10^19 (what parse_number delivers); "
        "quick: one seeded (lz, many) per q (+30% a second); thorough: 16 lz values per q, truncated at lz <= 4",
        "both formats f32 and f64; one instantiation each",
    ]
    rp.assumptions += [
        "definite results are compared with the exact rounding specification (DESIGN section 4) written over integers",
        "declined results are checked against the decline contract the slow path relies on (numeric form; the "
        "debug-assertion form is part of C04)",
        "solver 'unknown' is never counted as discharged",
    ]
    return rp.finish("model_checking" if False else "other",
                     "Exhaustive symbolic check per (format, decimal exponent, leading-zero class): the real MIR of the "
                     "moderate path is executed symbolically with the 64-bit significand unconstrained inside the class; "
                     "the negated rounding contract is refuted by an SMT solver (unsat) or a counterexample is replayed "
                     "on the compiled crate.")


PROPS = {
    "C11": check_C11,
}


def replay(pid, path):
    p = json.load(open(path))
    print(json.dumps(p, indent=1))
    if p.get("kind") == "moderate_path":
        from mir2smt import specs
        r = C.Runner(p["config"], "release")
        out = r.query(["moderate %s %d %d %d" % (p["fmt"], p["q"], p["w"], 1 if p["many"] else 0)])[0]
        print("real moderate_path now returns:", out)
        print("correct bits: w -> 0x%x, w+1 -> 0x%x" % (specs.rn_bits_decimal(p["fmt"], p["w"], p["q"]),
                                                       specs.rn_bits_decimal(p["fmt"], p["w"] + 1, p["q"])))
    return 0
