"""Property -> obligations, per tier."""
import json

from . import common as C
from . import groups as G
from .report import Report

BASE_TRUST = ["rustc MIR dump is what gets compiled (E1)", "z3 5.1.0 / z3 4.8.12 / cvc5 1.0.3",
              "hand models of core integer intrinsics (validated against the compiled crate each run)",
              "python integer arithmetic in the replay oracle"]


def check_C11(tier, seed):
    rp = Report("C11", tier, seed)
    rp.trusted.update(BASE_TRUST)
    G.validate_translator(rp, "default", seed, 300 if tier == "quick" else 1500)
    G.validate_translator(rp, "compact", seed, 300 if tier == "quick" else 1500)
    lc = None
    if tier != "thorough":
        lc = {f: sorted(set(G.lemire_classes(f, tier, seed) + G.lemire_threshold_classes(f, 2))) for f in ("f64", "f32")}
    G.run_lemire(rp, tier, seed, classes=lc)
    bc = {f: G.bell_classes(f, tier, seed) + G.bell_threshold_classes(f, 1 if tier == "thorough" else 2)
          + G.bell_subnormal_truncated_classes(f, 1 if tier == "thorough" else 2) for f in ("f64", "f32")}
    G.run_bell(rp, tier, seed, classes=bc)
    rp.bounds += [
        "Eisel-Lemire: w ranges over ALL values of each leading-zero class in every query; decimal exponents "
        "[-343, 309] concretely, all other i32 exponents through the symbolic-q early-out query + ground threshold facts",
        "quick tier: every q at lz=0 and two seeded lz, plus a seeded quarter of the boundary classes; thorough: all 64 lz",
        "Bellerophon: q in [-351, 310]; truncated (many_digits) case restricted to w < 10^19 (what parse_number delivers); "
        "quick: one seeded (lz, many) per q (+30% a second) plus every second class within a few bits of the zero / overflow "
        "thresholds; thorough: 16 lz values per q, truncated at lz <= 4, all threshold classes",
        "both formats f32 and f64; one instantiation each",
    ]
    rp.assumptions += [
        "definite results are compared with the exact rounding specification (DESIGN section 4) written over integers",
        "declined results are checked against the decline contract the slow path relies on (numeric form; the "
        "debug-assertion form is part of C04)",
        "solver 'unknown' is never counted as discharged",
    ]
    return rp.finish("model_checking" if False else "other",
                     "Exhaustive symbolic check per (format, decimal exponent, leading-zero class): the real MIR of the "
                     "moderate path is executed symbolically with the 64-bit significand unconstrained inside the class; "
                     "the negated rounding contract is refuted by an SMT solver (unsat) or a counterexample is replayed "
                     "on the compiled crate.")


KANI_TRUST = ["Kani 0.68 codegen + CBMC 6.11 + CaDiCaL", "rustc (the harness is compiled with the crate's real code; "
              "Kani models the dev profile: overflow checks and debug assertions on)"]


def _kani_prop(pid, tier, seed, crate, prefix, configs, bounds, assumptions, functions, explanation):
    from . import kani as K
    rp = Report(pid, tier, seed)
    rp.trusted.update(KANI_TRUST)
    hs = [h for h in K.list_harnesses(crate) if h.split("::")[-1].startswith(prefix)]
    for cfg in configs:
        G.run_kani(rp, crate, cfg, hs, pid.lower())
    rp.bounds += bounds
    rp.assumptions += assumptions
    rp.functions.update(functions)
    return rp.finish("other", explanation)


def check_C17(tier, seed):
    cfgs = ["default"] if tier == "quick" else ["default", "compact", "alloc"]
    return _kani_prop("C17", tier, seed, "core", "c17_", cfgs,
                      ["all 2^64 f64 bit patterns and all 2^32 f32 bit patterns are one symbolic variable per harness (no bound)",
                       "packing: all (exp, frac) with exp in [0, all-ones], frac < 2^p1, plus the un-masked carry (2^p1, 1)"],
                      ["specification side uses literal IEEE-754 parameters written in the harness, not the crate's constants"],
                      ["Float::{is_denormal, exponent, mantissa, from_bits, to_bits} for f32 and f64",
                       "extended_float::extended_to_float", "slow::b", "slow::bh"],
                      "Kani/CBMC decides each helper against the IEEE-754 encoding for every bit pattern (the whole domain "
                      "is a single symbolic input, so the SAT verdict is exhaustive, not sampled).")


def check_C18(tier, seed):
    cfgs = ["default"] if tier == "quick" else ["default", "compact"]
    return _kani_prop("C18", tier, seed, "core", "c18_", cfgs,
                      ["significand in [2^63, 2^64), biased exponent in [-63, 2100] (f64) / [-63, 320] (f32): the whole "
                       "domain the property names, symbolic; mask helpers for all widths 0..=64",
                       "callbacks exactly as the crate's call sites use them (nearest: is_above || (is_odd && is_halfway); "
                       "truncating: round_down)"],
                      ["oracle: textbook round-half-even / truncation of mant*2^(exp-bias) written in the harness",
                       "for exponents that already denote >= 2^emax the truncating variant returns the infinity encoding "
                       "(what its callers rely on); the harness asserts exactly that"],
                      ["rounding::round", "rounding::round_nearest_tie_even", "rounding::round_down",
                       "mask::lower_n_mask", "mask::lower_n_halfway", "mask::nth_bit", "extended_float::extended_to_float"],
                      "Kani/CBMC compares the real primitive (packed through extended_to_float) with the oracle for every "
                      "(significand, exponent) of the stated domain; vacuity witnesses (kani::cover!) for subnormal, "
                      "carry, smallest-normal and overflow cases must be satisfiable.")


def check_C14(tier, seed):
    rp = Report("C14", tier, seed)
    rp.trusted.update(BASE_TRUST)
    G.run_tables(rp)
    # on-demand integer powers of the compact configuration (u64::pow instead of tables): the factors `pow` and the
    # digit loop actually use must be the exact powers (trace harnesses in the compact configuration)
    G.run_kani_vec(rp, "quick", seed, ["C12"], config="compact", name_filter=r"pow_decomposition|pow_concrete")
    G.run_kani_parse(rp, "quick", seed, ["pm"], config="compact", minimal=True)
    # tables are consumed by the algorithms: a wrong entry must also break the moderate-path contract for its q
    if tier == "thorough":
        G.run_lemire(rp, "quick", seed, focus="tables")
    rp.bounds += ["every entry of every table (the index is the free variable of one ground query per table): 651 x 128-bit "
                  "Eisel-Lemire significands, 28 + 20 small integer powers, the used prefix (11 / 23) of the float power tables, "
                  "the 5-limb 5^135, 10 + 66 + 10 Bellerophon entries with the binary exponents the real get_small/get_large derive",
                  "values are the bytes / literals in rustc's MIR dump of the current tree, per configuration (default, compact)"]
    rp.assumptions += ["on-demand FLOAT powers of the compact/no_std configurations (std powf via the system libm = FFI, the bundled "
                       "libm pow) are NOT decided here (outside the technique / not attempted); the on-demand INTEGER powers (u64::pow) "
                       "are checked through the factors the compact `pow` and digit loop issue",
                       "powers of five/ten on the specification side are built by a multiplication chain inside the SMT script"]
    return rp.finish("other", "Ground SMT queries over the compiled table constants with the index symbolic: unsat means no index "
                              "violates the defining inequalities (truncation / normalisation / exactness).")



# the big-integer operations the slow path leans on, small enough for the quick tier of the composite properties
BIGINT_SUBSET = (r"large_add_from_(0|1|2|3|10|57|58|62)_|c12_shl_[12]_(0|1)_(0|1|63)$|bigint_pow_dispatch|pow_decomposition|pow_concrete|"
                 r"long_mul_concrete|small_mul_logged_(1|3|62)$|c12_hi64_(1|2|3|62)$|shl_bits_(2|62)$|shl_limbs_2_")

COMPOSITION = ("Compositional (DESIGN.md section 5): each stage's contract is decided by a solver over the real code "
               "(MIR->SMT for the scalar kernels, Kani/CBMC for loops/memory, ground SMT for tables); the step from the "
               "contracts to the end-to-end statement is a written argument and is part of the trusted base.")
COMP_TRUST = ["composition argument of DESIGN.md section 5 (contracts => property)",
              "IEEE-754 correct rounding of one hardware multiply/divide on exact operands (O-IEEE, not decided)"]


def _classes_subset(fmt, tier, seed, frac):
    import random
    cl = G.lemire_classes(fmt, tier, seed)
    if tier == "thorough":
        return cl
    rng = random.Random(seed * 977 + len(cl))
    keep = [c for c in cl if c[1] == 0 or rng.random() < frac]
    return sorted(set(keep + G.lemire_threshold_classes(fmt, 3)))


def _correct_rounding(pid, fmt, tier, seed):
    rp = Report(pid, tier, seed)
    rp.trusted.update(BASE_TRUST + KANI_TRUST + COMP_TRUST)
    G.validate_translator(rp, "default", seed, 200)
    G.run_lemire(rp, tier, seed, fmts=(fmt,), classes=None if tier == "thorough" else {fmt: _classes_subset(fmt, tier, seed, 0.35)})
    bc = G.bell_classes(fmt, tier, seed)
    if tier != "thorough":
        bc = bc[::2] + G.bell_threshold_classes(fmt, 3) + G.bell_subnormal_truncated_classes(fmt, 2)
    G.run_bell(rp, tier, seed, fmts=(fmt,), classes={fmt: bc})
    G.run_fast_path(rp, tier, seed, fmts=(fmt,))
    G.run_tables(rp)
    G.run_sticky(rp)
    pre = "c18_%s" % fmt
    G.run_kani_core(rp, tier, seed, [pre, "c17_%s" % fmt, "c18_masks"])
    G.run_kani_slow(rp, tier, seed, fmts=(fmt,))
    G.run_kani_parse(rp, tier, seed, ["pn", "pm"], minimal=True)
    G.run_kani_vec(rp, "quick", seed, ["C12"], name_filter=None if tier == "thorough" else BIGINT_SUBSET)
    rp.bounds += [
        "moderate path (%s): every significand of each enumerated (q, leading-zero) class; quick = seeded subset incl. lz=0 for every q" % fmt,
        "fast path: every decimal exponent in the dispatch window, all (w, truncated)",
        "digit loops: shapes up to 24 digits (parse_number) / 45 digits (parse_mantissa, with `max` as a parameter so that the "
        "cut position relative to chunk boundaries is covered); longer strings are outside the solver claim",
        "slow-path glue: big-integer operations replaced by trace stubs (their exactness: C12), exponents |e| <= 400",
        "feature configurations: default (Eisel-Lemire) and compact (Bellerophon) moderate paths; vector back-ends: C12/C13",
    ]
    rp.assumptions += ["O-IEEE trusted", "strings longer than the harness shapes are argued by uniformity of the digit loops, not decided"]
    return rp.finish("other", COMPOSITION)


def check_C01(tier, seed):
    return _correct_rounding("C01", "f64", tier, seed)


def check_C02(tier, seed):
    return _correct_rounding("C02", "f32", tier, seed)


def check_C03(tier, seed):
    rp = Report("C03", tier, seed)
    rp.trusted.update(BASE_TRUST + KANI_TRUST + COMP_TRUST)
    for fmt in ("f64", "f32"):
        G.run_lemire(rp, tier, seed, fmts=(fmt,), classes=None if tier == "thorough" else {fmt: _classes_subset(fmt, tier, seed, 0.2)})
    G.run_fast_path(rp, tier, seed)
    G.run_sticky(rp)
    G.run_tables(rp, configs=("default",))
    G.run_kani_parse(rp, tier, seed, ["pm"], minimal=True)
    rp.bounds += ["renderings are characterised, not computed: shortest / 17(9)-digit renderings w*10^q of x satisfy RN(w*10^q) = x by "
                  "definition, so the round trip is exactly the correct-rounding contract of the moderate/fast path for <= 17-digit w; "
                  "exact expansions (<= 767 / 112 digits) stay below MAX_DIGITS (sticky lemma) and go through the digit-loop contracts"]
    rp.assumptions += ["derived property: evidence = correct-rounding obligations (C01/C02) restricted to the renderings' shapes"]
    return rp.finish("other", COMPOSITION)


def check_C06(tier, seed):
    rp = Report("C06", tier, seed)
    rp.trusted.update(BASE_TRUST + KANI_TRUST + COMP_TRUST)
    G.run_kani_parse(rp, tier, seed, ["pn", "pm"])
    G.run_sticky(rp)
    # truncated significands in the moderate path: lemire glue (w vs w+1), compute_error, Bellerophon truncated
    mp = C.mir_path("default", False)
    from . import mirjobs as J, pool
    import random
    rng = random.Random(seed + 5)
    jobs = [(J.job_lemire_glue, (mp, f, 30)) for f in ("f64", "f32")]
    for f in ("f64", "f32"):
        qlo, qhi = G.table_range(f)
        qs = range(qlo, qhi + 1) if tier == "thorough" else sorted(rng.sample(range(qlo, qhi + 1), 60 if f == "f64" else 30))
        for q in qs:
            for lz in (range(5) if tier == "thorough" else [rng.randrange(5)]):
                jobs.append((J.job_lemire_ce, (mp, f, q, lz, 30, seed)))
    res = pool.run_jobs(jobs)
    G.consume(rp, res, "default", "lemire-truncated")
    import itertools
    bc = {f: [c for c in G.bell_classes(f, "thorough" if tier == "thorough" else "quick", seed) if c[2] == 1] for f in ("f64", "f32")}
    if tier == "quick":
        bc = {f: v[:120] for f, v in bc.items()}
    G.run_bell(rp, tier, seed, classes=bc)
    # truncated significands are 19-digit ones: both Eisel-Lemire passes (w and w+1) must be right there
    lc = None
    if tier != "thorough":
        lc = {f: [c for c in G.lemire_classes(f, tier, seed) if c[1] <= 4] for f in ("f64", "f32")}
    G.run_lemire(rp, tier, seed, classes=lc, focus="classes-only")
    # the big-integer operations long digit strings lean on (scaling by powers of ten, accumulation)
    G.run_kani_vec(rp, tier, seed, ["C12"], name_filter=None if tier == "thorough" else
                   r"large_add_from|c12_shl_\d|bigint_pow_dispatch|pow_decomposition|pow_concrete|long_mul_concrete|small_mul_logged_(0|1|2|3|62)$")
    rp.bounds += ["parse_number: the 19-digit cut, flag and exponent correction for every digit value at shapes up to 24 digits",
                  "parse_mantissa: the MAX_DIGITS cut with `max` in 1..45 as a parameter (every residue of the cut position modulo the "
                  "19-digit chunk), sticky digit iff a later digit is non-zero, trailing zeros never sticky",
                  "sticky lemma: MAX_DIGITS (read from the MIR) exceeds the digit count of every rounding midpoint",
                  "truncated significand in the moderate path: w and w+1 agree (Lemire wrapper), Bellerophon two-pass, decline contract on [w, w+1]"]
    return rp.finish("other", COMPOSITION)


def check_C07(tier, seed):
    rp = Report("C07", tier, seed)
    rp.trusted.update(BASE_TRUST + KANI_TRUST + COMP_TRUST)
    cls = {f: G.lemire_classes(f, tier, seed, focus="boundary") for f in ("f64", "f32")}
    if tier == "quick":
        import random
        rng = random.Random(seed + 3)
        for f in cls:
            F = G.specs.FORMATS[f]
            def near_edge(c):
                approx = (63 - c[1]) + c[0] * 3.321928094887362
                lo1, hi1 = 1 - F["bias"] - 5, 1 - F["bias"] + F["p1"] + 2
                emax = F["inf"] - 1 - F["bias"] + F["p1"] + 1
                return lo1 <= approx <= hi1 or emax - 3 <= approx <= emax + 2
            edge = [c for c in cls[f] if near_edge(c)]
            cls[f] = sorted(set(rng.sample(edge, min(len(edge), 400 if f == "f64" else 200)) + G.lemire_threshold_classes(f, 2) +
                                [c for c in cls[f] if c[1] == 0 and (c[0] < -300 or c[0] > 290 or f == "f32")]))
    G.run_lemire(rp, tier, seed, classes=cls)
    bc = {}
    for f in ("f64", "f32"):
        allc = G.bell_classes(f, "thorough", seed)
        F = G.specs.FORMATS[f]
        def edge(c):
            approx = (63 - c[1]) + c[0] * 3.321928094887362
            return approx < 1 - F["bias"] + F["p1"] + 3 or approx > F["inf"] - F["bias"] + F["p1"] - 4 or abs(c[0]) > 330
        e = [c for c in allc if edge(c)]
        bc[f] = e if tier == "thorough" else e[::7]
    G.run_bell(rp, tier, seed, classes=bc)
    G.run_kani_core(rp, tier, seed, ["c18_"])
    G.run_kani_parse(rp, tier, seed, ["pn"], minimal=True)
    G.run_kani_slow(rp, tier, seed)
    rp.bounds += ["every (q, lz) class whose value can be subnormal, zero, in the top binade or infinite (quick: a seeded 500/250 of them)",
                  "early outs by decimal exponent alone: symbolic-q queries (q < smallest, q > largest, zero significand) + ground threshold facts",
                  "round primitive over its whole domain; exponent saturation of parse_number over the full i32 range (Kani)"]
    return rp.finish("other", COMPOSITION)


def check_C09(tier, seed):
    rp = Report("C09", tier, seed)
    rp.trusted.update(BASE_TRUST + KANI_TRUST + COMP_TRUST + ["monotonicity of RN (mathematical fact)"])
    for fmt in ("f64", "f32"):
        G.run_lemire(rp, tier, seed, fmts=(fmt,), classes=None if tier == "thorough" else {fmt: _classes_subset(fmt, tier, seed, 0.3)})
    G.run_fast_path(rp, tier, seed)
    G.run_kani_parse(rp, tier, seed, ["pn"], minimal=True)
    bc = {f: G.bell_classes(f, tier, seed)[::3] for f in ("f64", "f32")}
    G.run_bell(rp, tier, seed, classes=bc)
    rp.bounds += ["each algorithm returns RN of the same exact value on BOTH sides of every switch-over: the moderate path is proved for all w "
                  "(not only those the dispatcher sends there), the fast path for its whole window, so every seam is covered by two "
                  "contracts that both equal RN; RN is monotone"]
    rp.assumptions += ["derived from the correct-rounding contracts; no separate two-input query (each side is proved equal to RN)"]
    return rp.finish("other", COMPOSITION)


def check_C10(tier, seed):
    rp = Report("C10", tier, seed)
    rp.trusted.update(KANI_TRUST + COMP_TRUST)
    G.run_kani_parse(rp, tier, seed, ["pn_rel", "pm", "pn"])
    G.run_kani_slow(rp, tier, seed)
    # different spellings of one value reach different stages (<= 19 digits: Eisel-Lemire; padded: big-integer stage):
    # each stage must return RN of the denoted value
    lc = None
    if tier != "thorough":
        lc = {f: [c for c in G.lemire_classes(f, tier, seed) if c[1] == 0] for f in ("f64", "f32")}
    G.run_lemire(rp, tier, seed, classes=lc, focus="classes-only")
    rp.bounds += ["re-splitting: the same digit array split at two points with compensated exponent gives identical (mantissa, exponent, flag) "
                  "- shapes up to 23 digits; appended fraction zeros: value preserved (shapes listed in the evidence)",
                  "big-integer stage: the comparison exponent equals e - (number of fraction digits) for every split (slow_dispatch)"]
    return rp.finish("other", COMPOSITION)


def check_C12(tier, seed):
    rp = Report("C12", tier, seed)
    rp.trusted.update(KANI_TRUST)
    G.run_kani_vec(rp, tier, seed, ["C12"])
    if tier == "thorough":
        G.run_kani_vec(rp, "quick", seed, ["C12"], config="alloc")
    rp.bounds += ["lengths enumerated (quick: 0-3, one seeded, 61, 62; thorough: 0..62), ALL limb values symbolic at each length",
                  "small_mul at every length with the 64x64 multiplier abstracted by a call-log stub (arbitrary relation => covers the real "
                  "one); real multiplier at length 0 (quick) / 0-2 (thorough); long_mul only on tiny shapes in thorough (CBMC cost)",
                  "pow: decomposition into 5^135 / 5^27 / 5^c factors for exp <= 2048 with the multiplications replaced by trace stubs",
                  "32-bit-limb targets not covered"]
    return rp.finish("other", "Kani/CBMC differential harnesses against textbook natural-number arithmetic (u128 carries): shape concrete, contents symbolic.")


def check_C13(tier, seed):
    rp = Report("C13", tier, seed)
    rp.trusted.update(KANI_TRUST)
    G.run_kani_vec(rp, tier, seed, ["C13"])
    # the small-arithmetic operations of the vectors (add_small / mul_small) are the C12 harnesses at short lengths
    G.run_kani_vec(rp, tier, seed, ["C12"], name_filter=r"small_mul_logged_(0|1|2|3|62)$|small_add_from_(0|1|2|3|62)_|small_mul_real_0")
    if tier == "thorough":
        G.run_kani_vec(rp, "quick", seed, ["C13"], config="alloc")
    rp.bounds += ["inductive step: one operation from an arbitrary valid state (every length enumerated as for C12, contents symbolic) "
                  "covers histories of any length, because every valid state is constructible by pushes",
                  "HeapVec (feature alloc): thorough tier only, quick length set"]
    return rp.finish("other", "Kani/CBMC: each vector operation from every valid state agrees with a reference sequence; failure leaves contents unchanged.")


def check_C16(tier, seed):
    rp = Report("C16", tier, seed)
    rp.trusted.update(KANI_TRUST)
    G.run_kani_parse(rp, tier, seed, ["pn_iter", "pm"])
    G.run_kani_slow(rp, tier, seed, fmts=("f64",))
    G.run_kani_vec(rp, tier, seed, ["C13"]) if tier == "thorough" else None
    # stale storage: large_add_from / resize read only initialised limbs (uninitialised memory is nondeterministic in CBMC)
    from . import kani as K, vecgen
    src, names = vecgen.generate(tier, seed)
    K.set_generated("vec", {"src/instances.rs": src})
    hs = [h for h in names["C12"] if "large_add_from" in h] + [h for h in names["C12"] if "shl_limbs" in h][:10] + \
         [h for h in names["C13"] if "resize" in h][:12]
    G.run_kani(rp, "vec", "default", hs, "stale-storage", timeout=600, lanes=12, extra=("-Z", "stubbing"))
    # shared mutable state: none outside the x87 control-word module (syntactic scan of the MIR, reported as assumption)
    import re
    txt = C.mir_dump("default", False)
    statics = [m for m in re.findall(r"(?m)^static (mut )?([\w:]+)", txt)]
    muts = [n for (m, n) in statics if m]
    rp.extra["static_items"] = [n for (_m, n) in statics]
    if muts:
        rp.error("mutable statics present: %r" % muts)
    rp.bounds += ["iterator shapes: slice iterators, a custom cursor with default size_hint, chain at a symbolic split, filter removing a sentinel",
                  "interleavings of concurrent callers: NOT addressed by this technique (Kani does not model threads); the only statement made "
                  "is syntactic - the MIR contains no `static mut` and no interior-mutable static"]
    rp.assumptions += ["thread schedules outside the technique"]
    return rp.finish("other", "Kani: the same bytes through differently shaped iterators give the same Number / call trace; uninitialised vector "
                              "storage is nondeterministic in CBMC, so reading a stale slot fails the contents comparison.")


def check_C19(tier, seed):
    rp = Report("C19", tier, seed)
    rp.trusted.update(KANI_TRUST)
    G.run_kani_frontend(rp, tier, seed)
    rp.bounds += ["every byte string of length 0..6 (quick) / 0..8 (thorough), all 256 byte values per position; parse_exponent with up to 12 digits",
                  "the library call is replaced by a logger (what reaches the library and what is returned is checked; the value itself is C01/C02)",
                  "front-end sources are copied from /repo's examples/simple.rs and tests/integration_tests.rs at run time (mechanically trimmed: "
                  "crate attributes, `extern crate`, main/tests removed; two functions made pub)"]
    return rp.finish("other", "Kani: the shipped front-end against an independent reference scanner for all byte strings of the stated lengths.")



def check_C04(tier, seed):
    """No panic for valid input: release and debug-assertion builds."""
    rp = Report("C04", tier, seed)
    rp.trusted.update(BASE_TRUST + KANI_TRUST + COMP_TRUST)
    # (a) scalar kernels on the MIR compiled with debug assertions + overflow checks: every rustc-inserted assert and
    #     every debug_assert! is an explicit terminator; a reachable one is a violation
    from . import mirjobs as J, pool
    import random
    rng = random.Random(seed + 41)
    mpc = C.mir_path("default", True)
    jobs = []
    for fmt in ("f64", "f32"):
        cl = G.lemire_classes(fmt, tier, seed, focus="boundary")
        if tier == "quick":
            cl = sorted(set([c for c in cl if c[1] == 0 or rng.random() < 0.15] + G.lemire_threshold_classes(fmt, 2)))
        for (q, lz) in cl:
            jobs.append((J.job_lemire_cf, (mpc, fmt, q, lz, 20 if tier == "quick" else 60, seed, True)))
        jobs.append((J.job_lemire_early, (mpc, fmt, 30)))
    res = pool.run_jobs(jobs, progress=2000)
    G.consume(rp, res, "default", "lemire[debug-assertions]")
    mpb = C.mir_path("compact", True)
    bjobs = []
    for fmt in ("f64", "f32"):
        bc = G.bell_classes(fmt, tier, seed)
        if tier == "quick":
            bc = bc[::3]
        for (q, lz, many) in bc:
            bjobs.append((J.job_bell, (mpb, fmt, q, lz, many, 20 if tier == "quick" else 60, seed, 10 ** 19 - 1, True)))
        bjobs.append((J.job_bell_early, (mpb, fmt, 60)))
    res = pool.run_jobs(bjobs, progress=1000)
    G.consume(rp, res, "compact", "bellerophon[debug-assertions]")
    # (b) loops / memory: Kani models the dev profile (overflow checks and debug assertions on): any reachable panic fails
    G.run_kani_parse(rp, tier, seed, ["pn", "pm"], minimal=True)
    G.run_kani_core(rp, tier, seed, ["c18_", "c17_"])
    G.run_kani_slow(rp, tier, seed)
    G.run_kani_vec(rp, "quick", seed, ["C12"], name_filter=None if tier == "thorough" else BIGINT_SUBSET)
    G.run_capacity(rp)
    rp.bounds += ["scalar kernels: MIR built with -C debug-assertions=on -C overflow-checks=on (default and compact); valid significands "
                  "(w < 10^19 where digits were truncated); classes as in C11 (quick: lz=0 for every q + seeded 15% of the boundary set)",
                  "digit loops: Kani (dev profile semantics) at the shapes of C06; strings longer than that are outside the solver claim",
                  "big-integer capacity: ground bound from the constants in the MIR (BIGINT_BITS, MAX_DIGITS, exponent range); the bit-length "
                  "abstraction behind it is a written argument"]
    rp.assumptions += ["NOT decided (listed in undecided_baseline.json, reported as outside the claim): whether Eisel-Lemire's all-ones fallback "
                       "leaf is reachable for decimal exponents so small that round()'s debug_assert!(shift <= 65) would fire in a debug build "
                       "- a Diophantine condition (102 consecutive one-bits of w*T) no solver here decides; release builds are unaffected "
                       "(the numeric decline contract is proved for those leaves)"]
    return rp.finish("other", COMPOSITION)


def check_C05(tier, seed):
    rp = Report("C05", tier, seed)
    rp.trusted.update(BASE_TRUST + KANI_TRUST + COMP_TRUST)
    # same classes through both moderate-path implementations: each is proved equal to RN, hence to each other
    cls = {f: _classes_subset(f, tier, seed, 0.15) for f in ("f64", "f32")}
    G.run_lemire(rp, tier, seed, classes=None if tier == "thorough" else cls)
    bc = {f: G.bell_classes(f, tier, seed) for f in ("f64", "f32")}
    if tier != "thorough":
        bc = {f: v[::2] + G.bell_threshold_classes(f, 3) + G.bell_subnormal_truncated_classes(f, 2) for f, v in bc.items()}
    G.run_bell(rp, tier, seed, classes=bc)
    G.run_tables(rp)
    # the two vector back-ends against the same reference model
    G.run_kani_vec(rp, "quick", seed, ["C13"], config="alloc")
    if tier == "thorough":
        G.run_kani_vec(rp, "quick", seed, ["C12"], config="alloc")
        G.run_kani_vec(rp, "quick", seed, ["C12"], config="compact")
    rp.bounds += ["configurations differ in three places: moderate path (Eisel-Lemire vs Bellerophon: both proved equal to RN on the same "
                  "classes), vector back-end (StackVec vs HeapVec: both proved against the same reference model), power source (tables "
                  "vs on-demand: tables decided; std's powf is FFI and outside the technique)",
                  "pow with / without the 5^135 step: decomposition harness (C12) in both configurations (thorough)"]
    return rp.finish("other", COMPOSITION)


def check_C08(tier, seed):
    rp = Report("C08", tier, seed)
    rp.trusted.update(KANI_TRUST + BASE_TRUST)
    G.run_kani_parse(rp, tier, seed, ["any"], accept_panics=True)
    # quick: the harnesses that exercise unsafe code (raw writes, set_len, ptr::copy, from_raw_parts); thorough: all
    G.run_kani_vec(rp, tier, seed, ["C13", "C12"],
                   name_filter=None if tier == "thorough" else r"push|pop|extend|resize|try_from|normalize|shl_limbs|clone_deref|shl_bits|large_add_from")
    if tier == "thorough":
        G.run_kani_vec(rp, "quick", seed, ["C13", "C12"], config="alloc")
    else:
        # the heap back-end's raw-pointer code (shl_limbs trusts capacity()) and its growth paths, short lengths
        G.run_kani_vec(rp, "quick", seed, ["C13", "C12"], config="alloc",
                       name_filter=r"(shl_limbs|push|extend|resize|try_from)_(0|1|2|3)(_|$)|after_clone")
    G.run_fast_path(rp, tier, seed)
    G.run_tables(rp, configs=("default",))
    rp.bounds += ["digit loops with ARBITRARY bytes (all 256 values, leading/trailing zeros) at shapes up to 40 bytes: Kani's pointer, bounds and "
                  "unsafe-precondition checks must all pass; clean panics are accepted (filtered by check class)",
                  "all unsafe code of the vectors / big integers (push/extend/resize_unchecked, set_len, shl_limbs' ptr::copy + write_bytes, "
                  "from_raw_parts in Deref) at every enumerated length with symbolic contents",
                  "get_unchecked table lookups: index-in-range obligations in the fast path (E1) and in the digit loop (Kani); table sizes (E3)",
                  "uninitialised-memory checks are not available in Kani 0.68; reads of never-written slots show up as nondeterministic values"]
    return rp.finish("other", "Kani memory-safety checks over unconstrained input + E1 index obligations for unchecked table lookups.")


def check_C15(tier, seed):
    rp = Report("C15", tier, seed)
    rp.trusted.update(KANI_TRUST)
    G.run_forbid_alloc(rp, tier, seed)
    rp.bounds += ["every harness of the digit loops, big-integer primitives and slow-path glue is re-run in the default configuration (no `alloc` "
                  "feature) with the global allocator entry point stubbed by a panicking function: any path that allocates fails",
                  "a vacuity twin that deliberately allocates must FAIL under the same stub",
                  "syntactic side condition (assumption, not verdict): no call in the non-alloc MIR targets alloc::/std::vec/std::string/format"]
    return rp.finish("other", "Kani with `alloc::alloc::alloc` replaced by a failing stub in all non-alloc harnesses.")


PROPS = {
    "C01": check_C01,
    "C02": check_C02,
    "C03": check_C03,
    "C04": check_C04,
    "C05": check_C05,
    "C06": check_C06,
    "C07": check_C07,
    "C08": check_C08,
    "C09": check_C09,
    "C10": check_C10,
    "C11": check_C11,
    "C12": check_C12,
    "C13": check_C13,
    "C14": check_C14,
    "C15": check_C15,
    "C16": check_C16,
    "C17": check_C17,
    "C18": check_C18,
    "C19": check_C19,
}


def replay(pid, path):
    p = json.load(open(path))
    print(json.dumps(p, indent=1))
    if p.get("kind") == "moderate_path":
        from mir2smt import specs
        r = C.Runner(p["config"], "release")
        out = r.query(["moderate %s %d %d %d" % (p["fmt"], p["q"], p["w"], 1 if p["many"] else 0)])[0]
        print("real moderate_path now returns:", out)
        print("correct bits: w -> 0x%x, w+1 -> 0x%x" % (specs.rn_bits_decimal(p["fmt"], p["w"], p["q"]),
                                                       specs.rn_bits_decimal(p["fmt"], p["w"] + 1, p["q"])))
    return 0
