"""Property -> obligations, per tier."""
import json

from . import common as C
from . import groups as G
from .report import Report

BASE_TRUST = ["rustc MIR dump is what gets compiled (E1)", "z3 5.1.0 / z3 4.8.12 / cvc5 1.0.3",
              "hand models of core integer intrinsics (validated against the compiled crate each run)",
              "python integer arithmetic in the replay oracle"]


def check_C11(tier, seed):
    rp = Report("C11", tier, seed)
    rp.trusted.update(BASE_TRUST)
    G.validate_translator(rp, "default", seed, 300 if tier == "quick" else 1500)
    G.validate_translator(rp, "compact", seed, 300 if tier == "quick" else 1500)
    G.run_lemire(rp, tier, seed)
    G.run_bell(rp, tier, seed)
    rp.bounds += [
        "Eisel-Lemire: w ranges over ALL values of each leading-zero class in every query; decimal exponents "
        "[-343, 309] concretely, all other i32 exponents through the symbolic-q early-out query + ground threshold facts",
        "quick tier: every q at lz=0 and two seeded lz, plus a seeded quarter of the boundary classes; thorough: all 64 lz",
        "Bellerophon: q in [-351, 310]; truncated (many_digits) case restricted to w < 10^19 (what parse_number delivers); "
        "quick: one seeded (lz, many) per q (+30% a second); thorough: 16 lz values per q, truncated at lz <= 4",
        "both formats f32 and f64; one instantiation each",
    ]
    rp.assumptions += [
        "definite results are compared with the exact rounding specification (DESIGN section 4) written over integers",
        "declined results are checked against the decline contract the slow path relies on (numeric form; the "
        "debug-assertion form is part of C04)",
        "solver 'unknown' is never counted as discharged",
    ]
    return rp.finish("model_checking" if False else "other",
                     "Exhaustive symbolic check per (format, decimal exponent, leading-zero class): the real MIR of the "
                     "moderate path is executed symbolically with the 64-bit significand unconstrained inside the class; "
                     "the negated rounding contract is refuted by an SMT solver (unsat) or a counterexample is replayed "
                     "on the compiled crate.")


KANI_TRUST = ["Kani 0.68 codegen + CBMC 6.11 + CaDiCaL", "rustc (the harness is compiled with the crate's real code; "
              "Kani models the dev profile: overflow checks and debug assertions on)"]


def _kani_prop(pid, tier, seed, crate, prefix, configs, bounds, assumptions, functions, explanation):
    from . import kani as K
    rp = Report(pid, tier, seed)
    rp.trusted.update(KANI_TRUST)
    hs = [h for h in K.list_harnesses(crate) if h.split("::")[-1].startswith(prefix)]
    for cfg in configs:
        G.run_kani(rp, crate, cfg, hs, pid.lower())
    rp.bounds += bounds
    rp.assumptions += assumptions
    rp.functions.update(functions)
    return rp.finish("other", explanation)


def check_C17(tier, seed):
    cfgs = ["default"] if tier == "quick" else ["default", "compact", "alloc"]
    return _kani_prop("C17", tier, seed, "core", "c17_", cfgs,
                      ["all 2^64 f64 bit patterns and all 2^32 f32 bit patterns are one symbolic variable per harness (no bound)",
                       "packing: all (exp, frac) with exp in [0, all-ones], frac < 2^p1, plus the un-masked carry (2^p1, 1)"],
                      ["specification side uses literal IEEE-754 parameters written in the harness, not the crate's constants"],
                      ["Float::{is_denormal, exponent, mantissa, from_bits, to_bits} for f32 and f64",
                       "extended_float::extended_to_float", "slow::b", "slow::bh"],
                      "Kani/CBMC decides each helper against the IEEE-754 encoding for every bit pattern (the whole domain "
                      "is a single symbolic input, so the SAT verdict is exhaustive, not sampled).")


def check_C18(tier, seed):
    cfgs = ["default"] if tier == "quick" else ["default", "compact"]
    return _kani_prop("C18", tier, seed, "core", "c18_", cfgs,
                      ["significand in [2^63, 2^64), biased exponent in [-63, 2100] (f64) / [-63, 320] (f32): the whole "
                       "domain the property names, symbolic; mask helpers for all widths 0..=64",
                       "callbacks exactly as the crate's call sites use them (nearest: is_above || (is_odd && is_halfway); "
                       "truncating: round_down)"],
                      ["oracle: textbook round-half-even / truncation of mant*2^(exp-bias) written in the harness",
                       "for exponents that already denote >= 2^emax the truncating variant returns the infinity encoding "
                       "(what its callers rely on); the harness asserts exactly that"],
                      ["rounding::round", "rounding::round_nearest_tie_even", "rounding::round_down",
                       "mask::lower_n_mask", "mask::lower_n_halfway", "mask::nth_bit", "extended_float::extended_to_float"],
                      "Kani/CBMC compares the real primitive (packed through extended_to_float) with the oracle for every "
                      "(significand, exponent) of the stated domain; vacuity witnesses (kani::cover!) for subnormal, "
                      "carry, smallest-normal and overflow cases must be satisfiable.")


PROPS = {
    "C11": check_C11,
    "C17": check_C17,
    "C18": check_C18,
}


def replay(pid, path):
    p = json.load(open(path))
    print(json.dumps(p, indent=1))
    if p.get("kind") == "moderate_path":
        from mir2smt import specs
        r = C.Runner(p["config"], "release")
        out = r.query(["moderate %s %d %d %d" % (p["fmt"], p["q"], p["w"], 1 if p["many"] else 0)])[0]
        print("real moderate_path now returns:", out)
        print("correct bits: w -> 0x%x, w+1 -> 0x%x" % (specs.rn_bits_decimal(p["fmt"], p["w"], p["q"]),
                                                       specs.rn_bits_decimal(p["fmt"], p["w"] + 1, p["q"])))
    return 0
