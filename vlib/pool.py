"""Process pool for solver jobs."""
import multiprocessing as mp
import os
import sys
import time

from . import common as C


def _call(packed):
    fn, args = packed
    return fn(args)


STOP_AFTER_VIOLATED = 40


def run_jobs(jobs, procs=None, progress=None):
    """jobs: list of (function, args).  Returns list of results (unordered).
    Once STOP_AFTER_VIOLATED jobs have come back 'violated' the remaining jobs are abandoned (the run is going to
    report violations anyway; on a broken tree the undecided fallbacks would otherwise take hours)."""
    procs = procs or C.NCPU
    if not jobs:
        return []
    out = []
    t0 = time.time()
    if procs == 1 or len(jobs) == 1:
        for j in jobs:
            out.append(_call(j))
        return out
    ctx = mp.get_context("fork")
    with ctx.Pool(min(procs, len(jobs))) as pool:
        n = 0
        nviol = 0
        for r in pool.imap_unordered(_call, jobs, chunksize=1):
            out.append(r)
            n += 1
            if isinstance(r, dict) and r.get("status") == "violated":
                nviol += 1
                if nviol >= STOP_AFTER_VIOLATED:
                    pool.terminate()
                    sys.stderr.write("  [%d violated obligations: abandoning the remaining %d jobs]\n" % (nviol, len(jobs) - n))
                    break
            if progress and (n % progress == 0):
                sys.stderr.write("  [%d/%d jobs, %.0fs]\n" % (n, len(jobs), time.time() - t0))
                sys.stderr.flush()
    return out
