"""Process pool for solver jobs."""
import multiprocessing as mp
import os
import sys
import time

from . import common as C


def _call(packed):
    fn, args = packed
    return fn(args)


def run_jobs(jobs, procs=None, progress=None):
    """jobs: list of (function, args).  Returns list of results (unordered)."""
    procs = procs or C.NCPU
    if not jobs:
        return []
    out = []
    t0 = time.time()
    if procs == 1 or len(jobs) == 1:
        for j in jobs:
            out.append(_call(j))
        return out
    ctx = mp.get_context("fork")
    with ctx.Pool(min(procs, len(jobs))) as pool:
        n = 0
        for r in pool.imap_unordered(_call, jobs, chunksize=1):
            out.append(r)
            n += 1
            if progress and (n % progress == 0):
                sys.stderr.write("  [%d/%d jobs, %.0fs]\n" % (n, len(jobs), time.time() - t0))
                sys.stderr.flush()
    return out
