"""Shared plumbing for the checks: scratch copies of /repo's working tree, MIR dumps, the replay
runner, evidence files, known findings, exit codes."""
import atexit
import hashlib
import json
import os
import shutil
import subprocess
import sys
import tempfile
import time

VERIF = os.path.dirname(os.path.dirname(os.path.abspath(__file__)))
REPO = os.environ.get("VERIF_REPO", "/repo")
EVIDENCE_DIR = os.path.join(VERIF, "evidence")
KNOWN = os.path.join(VERIF, "known_findings.json")
NCPU = int(os.environ.get("VERIF_JOBS", str(os.cpu_count() or 4)))

EXIT_OK, EXIT_VIOLATION, EXIT_INCONCLUSIVE, EXIT_BROKEN = 0, 1, 2, 3

CONFIGS = {
    # name -> cargo feature list for the library crate
    "default": ["std"],
    "compact": ["std", "compact"],
    "alloc": ["std", "alloc"],
    "compact_alloc": ["std", "compact", "alloc"],
    "nostd_compact": ["compact"],
}

ENV = dict(os.environ)
ENV["CARGO_NET_OFFLINE"] = "true"
ENV.setdefault("CARGO_TERM_COLOR", "never")


class Broken(Exception):
    pass


_scratch = None


def scratch():
    """A private scratch directory outside /repo and /verif, removed at exit."""
    global _scratch
    if _scratch is None:
        base = os.environ.get("VERIF_SCRATCH_BASE") or os.environ.get("TMPDIR") or "/tmp"
        _scratch = tempfile.mkdtemp(prefix="verif.", dir=base)
        atexit.register(_cleanup)
    return _scratch


def _cleanup():
    global _scratch
    if _scratch and os.path.isdir(_scratch) and not os.environ.get("VERIF_KEEP_SCRATCH"):
        shutil.rmtree(_scratch, ignore_errors=True)
    _scratch = None


def repo_copy(name="repo"):
    """Copy /repo's current working tree (sources only) into the scratch dir; return its path."""
    dst = os.path.join(scratch(), name)
    if os.path.isdir(dst):
        return dst
    os.makedirs(dst)
    for item in ("src", "Cargo.toml", "Cargo.lock", "examples", "tests", "fuzz"):
        s = os.path.join(REPO, item)
        if os.path.isdir(s):
            shutil.copytree(s, os.path.join(dst, item), ignore=shutil.ignore_patterns("target", "corpus", "artifacts"))
        elif os.path.exists(s):
            shutil.copy2(s, os.path.join(dst, item))
    return dst


def source_hash():
    h = hashlib.sha256()
    for root, _dirs, files in sorted(os.walk(os.path.join(REPO, "src"))):
        for f in sorted(files):
            p = os.path.join(root, f)
            h.update(p.encode())
            h.update(open(p, "rb").read())
    h.update(open(os.path.join(REPO, "Cargo.toml"), "rb").read())
    return h.hexdigest()


def run(cmd, cwd=None, timeout=None, env=None, check=False):
    p = subprocess.run(cmd, cwd=cwd, stdout=subprocess.PIPE, stderr=subprocess.STDOUT, timeout=timeout,
                       env=env or ENV)
    out = p.stdout.decode(errors="replace")
    if check and p.returncode != 0:
        raise Broken("command failed (%d): %s\n%s" % (p.returncode, " ".join(cmd), out[-3000:]))
    return p.returncode, out


def mir_dump(config="default", checks=False):
    """`-Zunpretty=mir` dump of the library for a feature configuration. Returns the text.

    checks=False: release semantics (no debug assertions, no overflow checks);
    checks=True: debug assertions and overflow checks on (every rustc-inserted assert is explicit)."""
    tag = "%s_%s" % (config, "chk" if checks else "rel")
    path = os.path.join(scratch(), "mir_%s.txt" % tag)
    if os.path.exists(path):
        return open(path).read()
    rc = repo_copy()
    feats = CONFIGS[config]
    flag = "on" if checks else "off"
    cmd = ["cargo", "+nightly", "rustc", "--offline", "--lib", "--no-default-features",
           "--target-dir", os.path.join(scratch(), "target_mir_" + tag)]
    if feats:
        cmd += ["--features", ",".join(feats)]
    cmd += ["--", "-Zunpretty=mir", "-C", "debug-assertions=" + flag, "-C", "overflow-checks=" + flag]
    p = subprocess.run(cmd, cwd=rc, stdout=subprocess.PIPE, stderr=subprocess.PIPE, timeout=600, env=ENV)
    text = p.stdout.decode(errors="replace")
    if p.returncode != 0 or "fn " not in text:
        raise Broken("MIR dump failed for %s:\n%s" % (tag, p.stderr.decode(errors="replace")[-3000:]))
    open(path, "w").write(text)
    return text


def mir_path(config="default", checks=False):
    mir_dump(config, checks)
    return os.path.join(scratch(), "mir_%s_%s.txt" % (config, "chk" if checks else "rel"))


class Runner(object):
    """The replay runner built against the scratch copy (real crate code, concrete inputs)."""

    _built = {}

    def __init__(self, config="default", profile="release"):
        self.config, self.profile = config, profile
        key = (config, profile)
        if key not in Runner._built:
            Runner._built[key] = self._build()
        self.exe = Runner._built[key]
        self.proc = None

    def _build(self):
        rc = repo_copy()
        d = os.path.join(scratch(), "runner_%s" % self.config)
        if not os.path.isdir(d):
            shutil.copytree(os.path.join(VERIF, "runner"), d, ignore=shutil.ignore_patterns("target"))
            feats = ", ".join('"%s"' % f for f in CONFIGS[self.config])
            t = open(os.path.join(d, "Cargo.toml.in")).read().replace("@REPO@", rc).replace("@FEATURES@", feats)
            open(os.path.join(d, "Cargo.toml"), "w").write(t)
            lock = os.path.join(rc, "Cargo.lock")
        cmd = ["cargo", "build", "--offline", "--quiet"]
        if self.profile == "release":
            cmd.append("--release")
        if "compact" in CONFIGS[self.config]:
            cmd += ["--features", "compact"]
        code, out = run(cmd, cwd=d, timeout=900)
        if code != 0:
            raise Broken("runner build failed (%s/%s):\n%s" % (self.config, self.profile, out[-3000:]))
        return os.path.join(d, "target", self.profile if self.profile == "release" else "debug", "verif-runner")

    def query(self, lines):
        """Run a batch of command lines; return list of output lines."""
        p = subprocess.run([self.exe], input=("\n".join(lines) + "\n").encode(), stdout=subprocess.PIPE,
                           stderr=subprocess.DEVNULL, timeout=600)
        out = p.stdout.decode().split("\n")
        if out and out[-1] == "":
            out.pop()
        if len(out) != len(lines):
            raise Broken("runner returned %d lines for %d commands" % (len(out), len(lines)))
        return out


# --------------------------------------------------------------------------
# evidence / findings / reporting
# --------------------------------------------------------------------------

def load_known():
    if not os.path.exists(KNOWN):
        return {"findings": [], "fixed": []}
    return json.load(open(KNOWN))


def write_evidence(pid, tier, seed, level, coverage, assumptions, wall_s, violations):
    os.makedirs(EVIDENCE_DIR, exist_ok=True)
    ev = {
        "property_id": pid,
        "tier": tier,
        "seed": seed,
        "level": level,
        "coverage": coverage,
        "assumptions": assumptions,
        "wall_s": round(wall_s, 2),
        "violations": violations,
    }
    path = os.path.join(EVIDENCE_DIR, pid + ".json")
    tmp = path + ".tmp"
    with open(tmp, "w") as f:
        json.dump(ev, f, indent=1, default=str)
    os.replace(tmp, path)
    return path


def write_replay(pid, name, payload):
    d = os.path.join(VERIF, "replays")
    os.makedirs(d, exist_ok=True)
    path = os.path.join(d, "%s_%s.json" % (pid, name))
    with open(path, "w") as f:
        json.dump(payload, f, indent=1, default=str)
    return path
