"""The rounding specification (DESIGN.md section 4) as terms over mathematical integers.

Everything here is written independently of the crate: literal IEEE-754
parameters, no constant is taken from the code under test.
"""
from . import terms as T

FORMATS = {
    # p1 = explicit fraction bits, bias = exponent bias of the *integer significand* form
    # (value = M * 2^(max(e,1) - bias)), inf = all-ones exponent field
    "f64": {"p1": 52, "bias": 1075, "inf": 0x7FF, "bits": 64},
    "f32": {"p1": 23, "bias": 150, "inf": 0xFF, "bits": 32},
}


def scaled_cmp_sides(B, w, q, M2, E1):
    """Return integer terms (lhs, rhs) with  sign(lhs - rhs) = sign(w*10^q - M2 * 2^E1).

    w, M2: terms; q, E1: python ints."""
    s = q - E1                      # w*5^q*2^s  vs  M2
    lhs = B.mul(w, T.const(5 ** max(q, 0) * 2 ** max(s, 0)))
    rhs = B.mul(M2, T.const(5 ** max(-q, 0) * 2 ** max(-s, 0)))
    return lhs, rhs


def rn_fields(B, fmt, w, q, f, e_val, upper_closed=False):
    """Boolean term: the float with fraction field term `f` (0 <= f < 2^p1) and *concrete*
    exponent field e_val is the round-to-nearest-even value of w * 10^q  (w > 0 a term, q int).

    upper_closed: instead demand that every real in [lower bound, w*10^q) rounds to that float, i.e.
    w*10^q <= upper midpoint (non-strict whatever the parity) - the form needed for the open end of a
    truncated significand's interval [w, w+1)."""
    F = FORMATS[fmt]
    p1, bias, inf = F["p1"], F["bias"], F["inf"]
    if e_val < 0 or e_val > inf:
        return T.FALSE
    if e_val == inf:
        # +infinity:  f == 0  and  V >= (2^(p1+2) - 1) * 2^(inf - 2 - bias)
        lhs, rhs = scaled_cmp_sides(B, w, q, T.const((1 << (p1 + 2)) - 1), inf - 2 - bias)
        if upper_closed:
            return B.eq(f, T.const(0))
        return B.band_bool(B.eq(f, T.const(0)), B.ge(lhs, rhs))
    hidden = (1 << p1) if e_val > 0 else 0
    M = B.add(f, T.const(hidden))
    E = max(e_val, 1) - bias
    even = B.eq(B.mod(M, 2), T.const(0))
    # upper:  V < (2M+1)*2^(E-1)  or (equal and M even)
    up_l, up_r = scaled_cmp_sides(B, w, q, B.add(B.mul(M, T.const(2)), T.const(1)), E - 1)
    upper = B.bor_bool(B.lt(up_l, up_r), B.band_bool(B.eq(up_l, up_r), even))
    if upper_closed:
        return B.le(up_l, up_r)
    # lower
    lo_l, lo_r = scaled_cmp_sides(B, w, q, B.sub(B.mul(M, T.const(2)), T.const(1)), E - 1)
    lower_plain = B.bor_bool(B.gt(lo_l, lo_r), B.band_bool(B.eq(lo_l, lo_r), even))
    if e_val > 1:
        # binade boundary (M == 2^p1): the gap below is half as wide:  V >= (4M-1)*2^(E-2), tie -> even (M is even)
        bl, br = scaled_cmp_sides(B, w, q, B.sub(B.mul(M, T.const(4)), T.const(1)), E - 2)
        lower_bnd = B.ge(bl, br)
        is_bnd = B.eq(f, T.const(0))
        lower = B.ite_bool(is_bnd, lower_bnd, lower_plain) if hasattr(B, "ite_bool") else \
            B.bor_bool(B.band_bool(is_bnd, lower_bnd), B.band_bool(B.bnot(is_bnd), lower_plain))
    else:
        lower = B.bor_bool(B.eq(M, T.const(0)), lower_plain)
    return B.band_bool(upper, lower)


def rn_extended(B, fmt, w, q, mant, exp, upper_closed=False):
    """Boolean term: the ExtendedFloat (mant, exp) *as packed by extended_to_float* (mant | exp << p1)
    denotes RN(w * 10^q).  `exp` must have a small range; it is case-split."""
    F = FORMATS[fmt]
    p1 = F["p1"]
    elo, ehi = B.rng(exp)
    if ehi - elo > 64:
        raise T.Unsupported("exponent field range too wide for case split: [%d,%d]" % (elo, ehi))
    cases = []
    for e in range(elo, ehi + 1):
        here = B.eq(exp, T.const(e))
        if here is T.FALSE:
            continue
        # well-formed packing: mant < 2^p1, or the un-masked carry (mant == 2^p1, exp == 1) which ORs to e=1,f=0
        ok_plain = B.band_bool(B.band_bool(B.ge(mant, T.const(0)), B.lt(mant, T.const(1 << p1))),
                               rn_fields(B, fmt, w, q, mant, e, upper_closed))
        if e == 1:
            carry = B.band_bool(B.eq(mant, T.const(1 << p1)), rn_fields(B, fmt, w, q, T.const(0), 1, upper_closed))
            ok_plain = B.bor_bool(ok_plain, carry)
        cases.append(B.band_bool(here, ok_plain))
    return B.disj(cases)


# --------------------------------------------------------------------------
# Python-integer reference (used for replay and for validating the translator)
# --------------------------------------------------------------------------

def rn_bits_exact(fmt, num, den):
    """Bits of the correctly rounded non-negative float for the rational num/den (python ints)."""
    F = FORMATS[fmt]
    p1, bias, inf = F["p1"], F["bias"], F["inf"]
    if num == 0:
        return 0
    # find E with 2^(p1) <= num/den / 2^E < 2^(p1+1), clamp to subnormal exponent
    # estimate
    e2 = num.bit_length() - den.bit_length() - p1
    # adjust so that M = floor(num / (den * 2^e2)) has p1+1 bits
    def scaled(e):
        if e >= 0:
            return num, den << e
        return num << (-e), den
    while True:
        n, d = scaled(e2)
        if n // d >= (1 << (p1 + 1)):
            e2 += 1
        elif n // d < (1 << p1):
            e2 -= 1
        else:
            break
    emin = 1 - bias
    if e2 < emin:
        e2 = emin
    n, d = scaled(e2)
    M, r = divmod(n, d)
    # round half even
    if 2 * r > d or (2 * r == d and (M & 1)):
        M += 1
    if M >= (1 << (p1 + 1)):
        M >>= 1
        e2 += 1
    if M < (1 << p1):
        e_field = 0
        f = M
    else:
        e_field = e2 + bias
        f = M - (1 << p1)
    if e_field >= inf:
        return inf << p1
    return (e_field << p1) | f


def rn_bits_decimal(fmt, w, q):
    if q >= 0:
        return rn_bits_exact(fmt, w * 10 ** q, 1)
    return rn_bits_exact(fmt, w, 10 ** (-q))


def interval_rounds_to(fmt, bits, w, q):
    """Exact check (python ints): does EVERY real in [w, w+1) * 10^q round to the float `bits`?"""
    if rn_bits_decimal(fmt, w, q) != bits:
        return False
    F = FORMATS[fmt]
    p1, bias, inf = F["p1"], F["bias"], F["inf"]
    e = bits >> p1
    f = bits & ((1 << p1) - 1)
    if e == inf:
        return True
    M = f + ((1 << p1) if e > 0 else 0)
    E = max(e, 1) - bias
    # (w+1)*10^q <= (2M+1)*2^(E-1)
    s = q - (E - 1)
    lhs = (w + 1) * 5 ** max(q, 0) * 2 ** max(s, 0)
    rhs = (2 * M + 1) * 5 ** max(-q, 0) * 2 ** max(-s, 0)
    return lhs <= rhs
