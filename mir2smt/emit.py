"""SMT-LIB emitters for the term DAG: mathematical integers and bit-vectors."""
from .terms import topo, Unsupported


def _ic(v):
    return str(v) if v >= 0 else "(- %d)" % (-v)


def emit_int(asserts, logic="ALL", produce_models=True, header=(), fresh_divmod=True, abstract_nonlinear=False):
    """Return SMT-LIB text asserting all boolean terms in `asserts` (Int encoding).

    fresh_divmod: floor division / modulus by constants are expressed with one shared pair of fresh
    quotient / remainder variables per (argument, divisor):  a = c*k + r, 0 <= r < c."""
    qr = {}
    out = ["(set-logic %s)" % logic]
    if produce_models:
        out.append("(set-option :produce-models true)")
    out.extend(header)
    names = {}
    order = topo(list(asserts))
    varnames = []
    for t in order:
        op = t.op
        if op == "const":
            names[t.id] = _ic(t.val)
            continue
        if op == "true":
            names[t.id] = "true"
            continue
        if op == "false":
            names[t.id] = "false"
            continue
        if op == "var":
            nm = "|%s|" % t.val
            names[t.id] = nm
            if t.isbool:
                out.append("(declare-fun %s () Bool)" % nm)
            else:
                out.append("(declare-fun %s () Int)" % nm)
                out.append("(assert (<= %s %s))" % (_ic(t.lo), nm))
                out.append("(assert (<= %s %s))" % (nm, _ic(t.hi)))
            varnames.append((t.val, t.isbool))
            continue
        a = [names[x.id] for x in t.args]
        if op == "add":
            e = "(+ %s %s)" % (a[0], a[1])
        elif op == "sub":
            e = "(- %s %s)" % (a[0], a[1])
        elif op == "neg":
            e = "(- %s)" % a[0]
        elif op == "mul" and abstract_nonlinear and t.args[0].op != "const" and t.args[1].op != "const":
            # a product of two symbolic values is generalised to an arbitrary integer in its interval
            nm = "p%d" % t.id
            out.append("(declare-fun %s () Int)" % nm)
            out.append("(assert (<= %s %s))" % (_ic(t.lo), nm))
            out.append("(assert (<= %s %s))" % (nm, _ic(t.hi)))
            names[t.id] = nm
            continue
        elif op == "mul":
            e = "(* %s %s)" % (a[0], a[1])
        elif op in ("div", "mod") and fresh_divmod:
            key = (t.args[0].id, t.val)
            if key not in qr:
                k, r = "k%d" % t.id, "r%d" % t.id
                out.append("(declare-fun %s () Int)" % k)
                out.append("(declare-fun %s () Int)" % r)
                out.append("(assert (= %s (+ (* %s %s) %s)))" % (a[0], _ic(t.val), k, r))
                out.append("(assert (<= 0 %s))" % r)
                out.append("(assert (< %s %s))" % (r, _ic(t.val)))
                qr[key] = (k, r)
            names[t.id] = qr[key][0] if op == "div" else qr[key][1]
            continue
        elif op == "div":
            e = "(div %s %s)" % (a[0], _ic(t.val))
        elif op == "mod":
            e = "(mod %s %s)" % (a[0], _ic(t.val))
        elif op == "ite":
            e = "(ite %s %s %s)" % (a[0], a[1], a[2])
        elif op == "le":
            e = "(<= %s %s)" % (a[0], a[1])
        elif op == "lt":
            e = "(< %s %s)" % (a[0], a[1])
        elif op == "eq":
            e = "(= %s %s)" % (a[0], a[1])
        elif op == "not":
            e = "(not %s)" % a[0]
        elif op == "and":
            e = "(and %s %s)" % (a[0], a[1])
        elif op == "or":
            e = "(or %s %s)" % (a[0], a[1])
        elif op == "xorb":
            e = "(xor %s %s)" % (a[0], a[1])
        elif op == "bor":
            raise Unsupported("bitwise or of overlapping symbolic values in Int encoding")
        else:
            raise Unsupported("emit_int " + op)
        nm = "t%d" % t.id
        out.append("(define-fun %s () %s %s)" % (nm, "Bool" if t.isbool else "Int", e))
        names[t.id] = nm
    for t in asserts:
        out.append("(assert %s)" % names[t.id])
    out.append("(check-sat)")
    if produce_models and varnames:
        out.append("(get-value (%s))" % " ".join("|%s|" % n for n, _ in varnames))
    return "\n".join(out) + "\n", varnames


# --------------------------------------------------------------------------
# Bit-vector emitter.  Every numeric node is emitted as a signed two's
# complement vector just wide enough for its interval (plus operands'), so no
# operation can overflow: the encoding is exact, not modular.
# --------------------------------------------------------------------------

def _need(lo, hi):
    """Bits for a signed representation of every value in [lo, hi]."""
    n = 1
    m = max(hi, -lo - 1, 0)
    return m.bit_length() + 1


def _bvc(v, w):
    return "(_ bv%d %d)" % (v % (1 << w), w)


def _ext(name, w_from, w_to):
    if w_from == w_to:
        return name
    assert w_to > w_from
    return "((_ sign_extend %d) %s)" % (w_to - w_from, name)


def emit_bv(asserts, produce_models=True):
    out = ["(set-logic QF_BV)"]
    if produce_models:
        out.append("(set-option :produce-models true)")
    names = {}
    width = {}
    order = topo(list(asserts))
    varnames = []

    def arg(x, w):
        if x.op == "const":
            return _bvc(x.val, w)
        return _ext(names[x.id], width[x.id], w)

    for t in order:
        op = t.op
        if op in ("true", "false"):
            names[t.id] = op
            continue
        if op == "const":
            width[t.id] = _need(t.val, t.val)
            continue
        if op == "var":
            nm = "|%s|" % t.val
            names[t.id] = nm
            if t.isbool:
                out.append("(declare-fun %s () Bool)" % nm)
            else:
                w = _need(t.lo, t.hi)
                width[t.id] = w
                out.append("(declare-fun %s () (_ BitVec %d))" % (nm, w))
                out.append("(assert (bvsle %s %s))" % (_bvc(t.lo, w), nm))
                out.append("(assert (bvsle %s %s))" % (nm, _bvc(t.hi, w)))
            varnames.append((t.val, t.isbool, width.get(t.id)))
            continue
        if t.isbool:
            if op in ("le", "lt", "eq"):
                x, y = t.args
                w = max(width[x.id], width[y.id])
                f = {"le": "bvsle", "lt": "bvslt", "eq": "="}[op]
                e = "(%s %s %s)" % (f, arg(x, w), arg(y, w))
            elif op == "not":
                e = "(not %s)" % names[t.args[0].id]
            elif op == "and":
                e = "(and %s %s)" % (names[t.args[0].id], names[t.args[1].id])
            elif op == "or":
                e = "(or %s %s)" % (names[t.args[0].id], names[t.args[1].id])
            elif op == "xorb":
                e = "(xor %s %s)" % (names[t.args[0].id], names[t.args[1].id])
            else:
                raise Unsupported("emit_bv bool " + op)
            nm = "t%d" % t.id
            out.append("(define-fun %s () Bool %s)" % (nm, e))
            names[t.id] = nm
            continue
        # numeric
        ws = [width[x.id] for x in t.args if not x.isbool]
        w = max([_need(t.lo, t.hi)] + ws)
        if op == "add":
            w = max(w, max(ws) + 1)
            e = "(bvadd %s %s)" % (arg(t.args[0], w), arg(t.args[1], w))
        elif op == "sub":
            w = max(w, max(ws) + 1)
            e = "(bvsub %s %s)" % (arg(t.args[0], w), arg(t.args[1], w))
        elif op == "neg":
            w = max(w, ws[0] + 1)
            e = "(bvneg %s)" % arg(t.args[0], w)
        elif op == "mul":
            w = max(w, ws[0] + ws[1])
            e = "(bvmul %s %s)" % (arg(t.args[0], w), arg(t.args[1], w))
        elif op in ("div", "mod"):
            c = t.val
            x = t.args[0]
            w = max(w, ws[0], _need(c, c)) + 1
            if c & (c - 1) == 0:
                k = c.bit_length() - 1
                if op == "div":
                    e = "(bvashr %s %s)" % (arg(x, w), _bvc(k, w))
                else:
                    e = "(bvand %s %s)" % (arg(x, w), _bvc(c - 1, w))
            else:
                # floor semantics for a positive divisor
                ax = arg(x, w)
                cc = _bvc(c, w)
                if op == "div":
                    e = ("(let ((q (bvsdiv {a} {c})) (r (bvsrem {a} {c}))) "
                         "(ite (bvslt r {z}) (bvsub q {o}) q))").format(a=ax, c=cc, z=_bvc(0, w), o=_bvc(1, w))
                else:
                    e = ("(let ((r (bvsrem {a} {c}))) (ite (bvslt r {z}) (bvadd r {c}) r))"
                         ).format(a=ax, c=cc, z=_bvc(0, w))
        elif op == "ite":
            e = "(ite %s %s %s)" % (names[t.args[0].id], arg(t.args[1], w), arg(t.args[2], w))
        elif op == "bor":
            e = "(bvor %s %s)" % (arg(t.args[0], w), arg(t.args[1], w))
        else:
            raise Unsupported("emit_bv " + op)
        nm = "t%d" % t.id
        out.append("(define-fun %s () (_ BitVec %d) %s)" % (nm, w, e))
        names[t.id] = nm
        width[t.id] = w
    for t in asserts:
        out.append("(assert %s)" % names[t.id])
    out.append("(check-sat)")
    if produce_models and varnames:
        out.append("(get-value (%s))" % " ".join("|%s|" % v[0] for v in varnames))
    return "\n".join(out) + "\n", varnames
