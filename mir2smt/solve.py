"""Solver portfolio: run SMT-LIB text through z3 / cvc5 binaries with a time cap.

Returns ('unsat'|'sat'|'unknown', model dict or None, solver name, seconds).
Any `(error` in the output makes the answer 'unknown' (inconclusive).
"""
import os
import re
import subprocess
import tempfile
import time
import hashlib

Z3 = os.environ.get("VERIF_Z3", "/usr/bin/z3")
CVC5 = os.environ.get("VERIF_CVC5", "cvc5")


def _run(cmd, text, timeout):
    t0 = time.time()
    try:
        p = subprocess.run(cmd, input=text.encode(), stdout=subprocess.PIPE, stderr=subprocess.PIPE,
                           timeout=timeout + 5)
        out = p.stdout.decode(errors="replace") + p.stderr.decode(errors="replace")
    except subprocess.TimeoutExpired:
        out = "timeout"
    return out, time.time() - t0


def parse_model(out):
    model = {}
    for m in re.finditer(r"\(\s*\|([^|]+)\|\s+((?:\(- \d+\))|(?:-?\d+)|true|false|#x[0-9a-fA-F]+|#b[01]+)\s*\)", out):
        v = m.group(2)
        if v == "true":
            val = True
        elif v == "false":
            val = False
        elif v.startswith("(-"):
            val = -int(v[3:-1])
        elif v.startswith("#x"):
            val = ("bv", int(v[2:], 16), 4 * (len(v) - 2))
        elif v.startswith("#b"):
            val = ("bv", int(v[2:], 2), len(v) - 2)
        else:
            val = int(v)
        model[m.group(1)] = val
    return model


def bv_signed(v):
    if isinstance(v, tuple):
        _, x, w = v
        return x - (1 << w) if x >= (1 << (w - 1)) else x
    return v


def _verdict(out):
    for ln in out.split("\n"):
        if "(error" in ln and "model is not available" not in ln and "Cannot get value unless" not in ln:
            return "unknown"
    first = out.strip().split("\n")[0].strip() if out.strip() else ""
    if first in ("sat", "unsat"):
        return first
    return "unknown"


def solve(text, timeout=30, order=("z3new", "z3", "cvc5")):
    """Portfolio: first solver to answer sat/unsat wins."""
    total = 0.0
    last = ("unknown", None, "none", 0.0)
    for name in order:
        if name == "z3":
            cmd = [Z3, "-in", "-smt2", "-T:%d" % timeout]
        elif name == "z3new":
            cmd = ["z3-new", "-in", "-smt2", "-T:%d" % timeout]
        elif name == "cvc5":
            cmd = [CVC5, "--lang", "smt2", "--tlimit=%d" % (timeout * 1000), "--produce-models"]
        else:
            raise ValueError(name)
        out, dt = _run(cmd, text, timeout)
        total += dt
        v = _verdict(out)
        if v in ("sat", "unsat"):
            return v, (parse_model(out) if v == "sat" else None), name, total
        last = ("unknown", None, name, total)
    return last


def text_hash(text):
    return hashlib.sha256(text.encode()).hexdigest()
