"""Forking symbolic executor for the loop-free / shallow-loop scalar kernels of
minimal-lexical, working directly on rustc's MIR dump.

Values are python objects wrapping terms from `terms.py`.  A path forks when a
branch condition, a shift amount, a leading-zero class or an overflow flag is
not decided by the path's interval knowledge; each alternative records the
condition in the path condition `pc`.
"""
import re
from . import terms as T
from .mirparse import Mir, MirError, Place, split_top


class Unsupported(Exception):
    pass


Fork = T.Fork


# --------------------------------------------------------------------------
# values
# --------------------------------------------------------------------------

INT_TYPES = {
    "u8": (8, False), "u16": (16, False), "u32": (32, False), "u64": (64, False),
    "u128": (128, False), "usize": (64, False),
    "i8": (8, True), "i16": (16, True), "i32": (32, True), "i64": (64, True),
    "i128": (128, True), "isize": (64, True),
}


class VInt(object):
    __slots__ = ("t", "bits", "signed")

    def __init__(self, t, bits, signed):
        self.t, self.bits, self.signed = t, bits, signed

    def __repr__(self):
        return "%s:%s%d" % (self.t, "i" if self.signed else "u", self.bits)


class VBool(object):
    __slots__ = ("t",)

    def __init__(self, t):
        self.t = t

    def __repr__(self):
        return "b(%s)" % (self.t,)


class VTuple(object):
    __slots__ = ("items", "kind")

    def __init__(self, items, kind=None):
        self.items, self.kind = tuple(items), kind

    def __repr__(self):
        return "%s%r" % (self.kind or "", self.items)


class VArray(object):
    __slots__ = ("items", "name")

    def __init__(self, items, name=None):
        self.items, self.name = tuple(items), name

    def __repr__(self):
        return "[array %s len %d]" % (self.name, len(self.items))


class VVariant(object):
    __slots__ = ("adt", "variant", "items")

    def __init__(self, adt, variant, items=()):
        self.adt, self.variant, self.items = adt, variant, tuple(items)

    def __repr__(self):
        return "%s::%s%r" % (self.adt, self.variant, self.items)


class VRef(object):
    """Reference to (root, path).  root is a frame depth (int) + local, or a constant holder."""
    __slots__ = ("frame", "local", "path", "const")

    def __init__(self, frame, local, path, const=None):
        self.frame, self.local, self.path, self.const = frame, local, tuple(path), const

    def __repr__(self):
        return "&[%s _%s %s]" % (self.frame, self.local, self.path)


class VFloat(object):
    __slots__ = ("d", "ty")

    def __init__(self, d, ty):
        self.d, self.ty = d, ty

    def __repr__(self):
        return "float%r" % (self.d,)


class VFn(object):
    __slots__ = ("name",)

    def __init__(self, name):
        self.name = name


class VOpaque(object):
    __slots__ = ("what",)

    def __init__(self, what):
        self.what = what

    def __repr__(self):
        return "<opaque %s>" % self.what


class Boxed(object):
    def __init__(self, value):
        self.value = value


UNIT = VTuple((), "unit")

VARIANT_INDEX = {
    "None": 0, "Some": 1, "Continue": 0, "Break": 1, "Less": -1, "Equal": 0, "Greater": 1,
    "Five": 0, "Ten": 1, "Ok": 0, "Err": 1,
}


class Frame(object):
    __slots__ = ("body", "locals", "bb", "dest", "ret_bb")

    def __init__(self, body, dest=None, ret_bb=None):
        self.body = body
        self.locals = {}
        self.bb = "bb0"
        self.dest = dest        # (frame depth, Place) in the caller
        self.ret_bb = ret_bb

    def clone(self):
        f = Frame(self.body, self.dest, self.ret_bb)
        f.locals = dict(self.locals)
        f.bb = self.bb
        return f


class State(object):
    def __init__(self):
        self.frames = []
        self.pc = []
        self.B = T.Builder(split_mod=True)
        self.log = []
        self.steps = 0
        self.holder = {}     # storage for by-reference arguments of the entry function (frame id -1)

    def clone(self):
        s = State()
        s.holder = dict(self.holder)
        s.frames = [f.clone() for f in self.frames]
        s.pc = list(self.pc)
        s.B = self.B.clone()
        s.log = list(self.log)
        s.steps = self.steps
        return s


class Leaf(object):
    def __init__(self, kind, value, st, info=None):
        self.kind = kind      # 'return' | 'panic' | 'ub'
        self.value = value
        self.pc = list(st.pc)
        self.holder = dict(st.holder)
        self.locals0 = dict(st.frames[0].locals) if st.frames else {}
        self.B = st.B.clone()
        self.B.split_mod = False
        self.log = list(st.log)
        self.info = info

    def pc_term(self):
        """Conjunction of the path condition, built WITHOUT the path's own assumptions."""
        return T.Builder().conj(self.pc)

    def guarded(self, cond):
        """pc AND cond, where cond may have been simplified under the path's assumptions."""
        return T.Builder().band_bool(self.pc_term(), cond)

    def __repr__(self):
        return "Leaf(%s, %r, pc=%d)" % (self.kind, self.value, len(self.pc))


class Executor(object):
    def __init__(self, mir, fty, max_fork_values=160, max_steps=20000, max_paths=20000):
        self.mir = mir
        self.fty = fty  # 'f32' | 'f64' : binding of the generic parameter F / Self
        self.max_fork_values = max_fork_values
        self.max_steps = max_steps
        self.max_paths = max_paths
        self._const_cache = {}
        self._closure_fns = {}
        self._impl_float = {}
        self.stubs = {}          # function name -> python callable(ex, st, args) -> value
        self.stats = {"paths": 0, "forks": 0, "steps": 0}
        self._index_items()

    # ---- item indexing -------------------------------------------------------
    def _index_items(self):
        for nm, it in self.mir.items.items():
            if it.kind == "fn" and it.params:
                ty = it.params[0][1]
                m = re.match(r"^&(?:mut )?(\{closure@.*\})$", ty)
                if m:
                    self._closure_fns[m.group(1)] = it
            m = re.match(r"^(.*<impl at [^>]*>)::from_u64$", nm)
            if m and it.ret in ("f32", "f64"):
                self._impl_float[it.ret] = m.group(1)
        self.float_impl_prefix = self._impl_float.get(self.fty)

    def find_fn(self, callee):
        """Resolve a callee path printed at a call site to a Body."""
        name = strip_generics(callee)
        it = self.mir.items.get(name)
        if it is not None and it.kind == "fn":
            return it
        # <F as num::Float>::method  /  <Self as num::Float>::method
        m = re.match(r"^<(\w+) as (?:num::)?Float>::(\w+)$", name)
        if m:
            meth = m.group(2)
            it = self.mir.items.get("%s::%s" % (self.float_impl_prefix, meth))
            if it is not None:
                return it
            for cand in ("num::Float::" + meth, "Float::" + meth):
                it = self.mir.items.get(cand)
                if it is not None:
                    return it
            raise Unsupported("Float method not found: " + callee)
        # Type::method  ->  <impl at ..>::method with matching self/return type
        if "::" in name:
            tyname, meth = name.rsplit("::", 1)
            tyname = tyname.split("::")[-1]
            cands = []
            for nm, it in self.mir.items.items():
                if it.kind != "fn" or not re.search(r"<impl at [^>]*>::" + re.escape(meth) + "$", nm):
                    continue
                sig_types = [p[1] for p in it.params[:1]] + [it.ret]
                if any(re.sub(r"^&(mut )?", "", t).split("<")[0].split("::")[-1] == tyname for t in sig_types):
                    cands.append(it)
            if len(cands) == 1:
                return cands[0]
            if len(cands) > 1:
                raise Unsupported("ambiguous callee %s: %s" % (callee, [c.name for c in cands]))
        # unique suffix
        cands = [it for it in self.mir.find_suffix(name.split("::")[-1], "fn")]
        if len(cands) == 1:
            return cands[0]
        return None

    # ---- constants -------------------------------------------------------------
    def const_item(self, name):
        key = (name, self.fty)
        if key in self._const_cache:
            return self._const_cache[key]
        it = None
        m = re.match(r"^<(\w+) as (?:num::)?Float>::(.+)$", name)
        if m:
            self_ty = m.group(1)
            prefix = self.float_impl_prefix if self_ty in ("F", "Self", self.fty) else self._impl_float.get(self_ty)
            if prefix is None:
                raise Unsupported("no Float impl for " + self_ty)
            cn = m.group(2)
            it = self.mir.items.get("%s::%s" % (prefix, cn))
            if it is None:
                for cand in ("num::Float::" + cn, "Float::" + cn):
                    it = self.mir.items.get(cand)
                    if it is not None:
                        break
                # trait default evaluated with Self = that type
                if it is not None and self_ty not in ("F", "Self", self.fty):
                    sub = Executor(self.mir, self_ty)
                    v = sub.const_item("<Self as num::Float>::" + cn)
                    self._const_cache[key] = v
                    return v
        else:
            it = self.mir.items.get(name)
            pm = re.match(r"^(.*)::promoted\[(\d+)\]$", name)
            if it is None and pm:
                owner = self.mir.items.get(strip_generics(pm.group(1))) or self.find_fn(pm.group(1))
                if owner is None:
                    cands = self.mir.find_suffix(strip_generics(pm.group(1)).split("::")[-1], "const")
                    owner = cands[0] if len(cands) == 1 else None
                if owner is not None:
                    it = self.mir.items.get("%s::promoted[%s]" % (owner.name, pm.group(2)))
            if it is None:
                cands = self.mir.find_suffix(name.split("::")[-1], "const")
                tail = name.split("::")
                if len(cands) > 1 and len(tail) > 1:
                    cands = [c for c in cands if c.name.endswith("::".join(tail[-2:]))] or cands
                if len(cands) == 1:
                    it = cands[0]
        if it is None:
            raise Unsupported("constant not found: " + name)
        if it.value is not None:
            v = self.literal(it.value, it.ret)
        else:
            st = State()
            st.frames.append(Frame(it))
            leaves = self.run(st)
            if len(leaves) != 1 or leaves[0].kind != "return":
                raise Unsupported("constant body did not evaluate to one value: " + name)
            v = self._freeze(leaves[0].value, leaves[0].locals0)
        self._const_cache[key] = v
        return v

    def _freeze(self, v, locals0):
        """References into the (now dead) frame of a constant's body become references to constants."""
        if isinstance(v, VRef):
            if v.const is not None:
                return VRef(None, None, v.path, const=self._freeze(v.const, locals0))
            if v.frame == 0:
                return VRef(None, None, v.path, const=self._freeze(locals0[v.local], locals0))
            raise Unsupported("constant holds a reference that cannot be frozen")
        if isinstance(v, VTuple):
            return VTuple([self._freeze(x, locals0) for x in v.items], v.kind)
        if isinstance(v, VArray):
            return VArray([self._freeze(x, locals0) for x in v.items], v.name)
        if isinstance(v, VVariant):
            return VVariant(v.adt, v.variant, [self._freeze(x, locals0) for x in v.items])
        return v

    def literal(self, text, ty_hint=None):
        text = text.strip()
        if text == "true":
            return VBool(T.TRUE)
        if text == "false":
            return VBool(T.FALSE)
        if text == "()":
            return UNIT
        m = re.match(r"^(-?\d+)_([ui](?:8|16|32|64|128|size))$", text)
        if m:
            bits, signed = INT_TYPES[m.group(2)]
            return VInt(T.const(int(m.group(1))), bits, signed)
        m = re.match(r"^([ui](?:8|16|32|64|128|size))::(MAX|MIN)$", text)
        if m:
            bits, signed = INT_TYPES[m.group(1)]
            if m.group(2) == "MAX":
                v = (1 << (bits - 1)) - 1 if signed else (1 << bits) - 1
            else:
                v = -(1 << (bits - 1)) if signed else 0
            return VInt(T.const(v), bits, signed)
        m = re.match(r"^(-?[\d.]+(?:[eE][+-]?\d+)?)(f32|f64)$", text)
        if m:
            return VFloat(("lit", m.group(1)), m.group(2))
        m = re.match(r"^\{(alloc\d+): (.*)\}$", text)
        if m:
            sname, data = self.mir.allocs.get(m.group(1), (None, None))
            if data is None:
                raise Unsupported("allocation not decodable: " + text)
            ty = m.group(2)
            assert ty.startswith("&")
            val, used = decode_bytes(data, 0, ty[1:].strip())
            if isinstance(val, VArray):
                val.name = sname
            return VRef(None, None, (), const=val)
        if text.startswith("ZeroSized: "):
            kind = text[len("ZeroSized: "):]
            return VTuple((), kind)
        m = re.match(r"^([\w:<>, ]+)::(\w+)$", text)
        if m and m.group(2) in VARIANT_INDEX and "Float>" not in text:
            return VVariant(strip_generics(m.group(1)), m.group(2))
        # named constant
        return self.const_item(text)

    # ---- running ---------------------------------------------------------------
    def call(self, fname, args, pc=(), bounds=None, log=()):
        """Symbolically execute function `fname` on argument values; return leaves.
        An argument wrapped in Boxed(v) is passed by reference (&T / &mut T); its final value is
        available as leaf.holder[i]."""
        body = self.mir.items.get(fname) or self.find_fn(fname)
        if body is None:
            raise Unsupported("function not found: " + fname)
        st = State()
        if bounds:
            st.B = T.Builder(bounds, split_mod=True)
        st.pc = list(pc)
        for c in pc:
            st.B.assume(c, True)
        fr = Frame(body)
        st.frames.append(fr)
        if len(args) != len(body.params):
            raise Unsupported("arity mismatch calling " + fname)
        for i, ((n, _ty), v) in enumerate(zip(body.params, args)):
            if isinstance(v, Boxed):
                st.holder[i] = v.value
                v = VRef(-1, i, ())
            fr.locals[n] = v
        st.log = list(log)
        return self.run(st)

    def run(self, st):
        work = [st]
        leaves = []
        while work:
            st = work.pop()
            while True:
                try:
                    r = self.step(st)
                except Fork as f:
                    self.stats["forks"] += 1
                    for cond in f.alts:
                        if cond is T.FALSE:
                            continue
                        s2 = st.clone()
                        if cond is not T.TRUE:
                            s2.pc.append(cond)
                            s2.B.assume(cond, True)
                        if any(lo > hi for lo, hi in s2.B.bounds.values()):
                            continue  # interval-infeasible
                        work.append(s2)
                    break
                if r is not None:
                    leaves.append(r)
                    self.stats["paths"] += 1
                    if len(leaves) > self.max_paths:
                        raise Unsupported("path explosion (> %d paths)" % self.max_paths)
                    break
        return leaves

    # one basic block per step ------------------------------------------------
    def step(self, st):
        fr = st.frames[-1]
        depth = len(st.frames) - 1
        stmts, term = self.mir.block(fr.body, fr.bb)
        st.steps += 1
        self.stats["steps"] += 1
        if st.steps > self.max_steps:
            raise Unsupported("step budget exceeded in " + fr.body.name)
        # statements: evaluate on a scratch copy of the locals so that a Fork leaves `st` untouched
        saved = [dict(f.locals) for f in st.frames]
        saved_holder = dict(st.holder)
        try:
            for (place, rv) in stmts:
                val = self.rvalue(st, depth, rv)
                self.write(st, depth, place, val)
            return self.terminator(st, depth, term)
        except Fork:
            for f, loc in zip(st.frames, saved):
                f.locals = loc
            del st.frames[len(saved):]
            st.holder = saved_holder
            raise

    def terminator(self, st, depth, term):
        fr = st.frames[depth]
        B = st.B
        k = term[0]
        if k == "goto":
            fr.bb = term[1]
            return None
        if k == "return":
            val = fr.locals.get(0, UNIT)
            if depth == 0:
                return Leaf("return", val, st)
            dest_depth_place, ret_bb = fr.dest, fr.ret_bb
            st.frames.pop()
            caller = st.frames[-1]
            if dest_depth_place is not None:
                self.write(st, len(st.frames) - 1, dest_depth_place, val)
            caller.bb = ret_bb
            return None
        if k == "switch":
            v = self.operand(st, depth, term[1])
            targets = term[2]
            if isinstance(v, VBool):
                c = B.norm(v.t)
                tmap = dict(targets)
                if c is T.TRUE:
                    fr.bb = tmap["otherwise"]
                    return None
                if c is T.FALSE:
                    fr.bb = tmap["0"]
                    return None
                raise Fork([c, B.bnot(c)], "branch")
            if isinstance(v, VInt):
                cv = B.cval(v.t)
                if cv is not None:
                    for key, bb in targets:
                        if key != "otherwise" and parse_switch_key(key, v) == cv:
                            fr.bb = bb
                            return None
                    fr.bb = dict(targets)["otherwise"]
                    return None
                alts = []
                others = []
                for key, bb in targets:
                    if key == "otherwise":
                        continue
                    e = B.eq(v.t, T.const(parse_switch_key(key, v)))
                    alts.append(e)
                    others.append(B.bnot(e))
                alts.append(B.conj(others))
                raise Fork(alts, "switch")
            raise Unsupported("switchInt on %r" % (v,))
        if k == "assert":
            v = self.operand(st, depth, term[1])
            c = B.norm(v.t)
            if not term[2]:
                c = B.bnot(c)
            if c is T.TRUE:
                fr.bb = term[4]
                return None
            if c is T.FALSE:
                return Leaf("panic", None, st, info=term[3] + " @" + fr.body.name)
            raise Fork([c, B.bnot(c)], "assert")
        if k == "unreachable":
            return Leaf("panic", None, st, info="unreachable/" + term[1] + " @" + fr.body.name)
        if k == "call":
            return self.do_call(st, depth, term)
        raise Unsupported("terminator %r" % (term,))

    # ---- places ------------------------------------------------------------------
    def resolve(self, st, depth, place):
        """Follow derefs: return (root_frame_depth or None, local or const value, concrete path)."""
        fdepth, local, path, cbase = depth, place.local, [], None
        for pr in place.proj:
            if pr[0] == "deref":
                cur = self._get(st, fdepth, local, path, cbase)
                if not isinstance(cur, VRef):
                    raise Unsupported("deref of non-reference %r" % (cur,))
                if cur.const is not None:
                    fdepth, local, path, cbase = None, None, list(cur.path), cur.const
                else:
                    fdepth, local, path, cbase = cur.frame, cur.local, list(cur.path), None
            elif pr[0] == "field":
                path.append(pr[1])
            elif pr[0] == "index":
                iv = st.frames[depth].locals[pr[1]]
                cv = st.B.cval(iv.t)
                if cv is None:
                    lo, hi = st.B.rng(iv.t)
                    if hi - lo + 1 > self.max_fork_values:
                        raise Unsupported("symbolic index with range [%d,%d]" % (lo, hi))
                    raise Fork([st.B.eq(iv.t, T.const(x)) for x in range(lo, hi + 1)], "index")
                path.append(("idx", cv))
            elif pr[0] == "constindex":
                path.append(("idx", pr[1]))
            elif pr[0] == "downcast":
                path.append(("variant", pr[1]))
            else:
                raise Unsupported("projection %r" % (pr,))
        return fdepth, local, path, cbase

    def _get(self, st, fdepth, local, path, cbase):
        if cbase is not None:
            v = cbase
        elif fdepth == -1:
            v = st.holder[local]
        else:
            try:
                v = st.frames[fdepth].locals[local]
            except KeyError:
                raise Unsupported("read of unset local _%s in %s" % (local, st.frames[fdepth].body.name))
        for p in path:
            v = self._proj(v, p)
        return v

    def _proj(self, v, p):
        if isinstance(p, int):
            if isinstance(v, (VTuple, VVariant)):
                return v.items[p]
            raise Unsupported("field %d of %r" % (p, v))
        if p[0] == "idx":
            if isinstance(v, VArray):
                if not (0 <= p[1] < len(v.items)):
                    raise Unsupported("constant index %d out of bounds (len %d)" % (p[1], len(v.items)))
                return v.items[p[1]]
            raise Unsupported("index into %r" % (v,))
        if p[0] == "variant":
            if isinstance(v, VVariant) and v.variant == p[1]:
                return v
            raise Unsupported("downcast %r to %s" % (v, p[1]))
        raise Unsupported("projection step %r" % (p,))

    def read(self, st, depth, place):
        fd, local, path, cbase = self.resolve(st, depth, place)
        return self._get(st, fd, local, path, cbase)

    def write(self, st, depth, place, val):
        fd, local, path, cbase = self.resolve(st, depth, place)
        if cbase is not None:
            raise Unsupported("write through reference to constant")
        store = st.holder if fd == -1 else st.frames[fd].locals
        if not path:
            store[local] = val
            return
        store[local] = self._update(store.get(local), path, val)

    def _update(self, cur, path, val):
        if not path:
            return val
        p = path[0]
        if isinstance(p, int):
            if cur is None:
                raise Unsupported("field write into unset aggregate")
            items = list(cur.items)
            items[p] = self._update(items[p], path[1:], val)
            if isinstance(cur, VTuple):
                return VTuple(items, cur.kind)
            return VVariant(cur.adt, cur.variant, items)
        if p[0] == "idx":
            items = list(cur.items)
            items[p[1]] = self._update(items[p[1]], path[1:], val)
            return VArray(items, cur.name)
        if p[0] == "variant":
            return self._update(cur, path[1:], val)
        raise Unsupported("update step %r" % (p,))

    # ---- operands / rvalues ---------------------------------------------------------
    def operand(self, st, depth, op):
        k = op[0]
        if k in ("copy", "move"):
            return self.read(st, depth, op[1])
        if k == "const":
            return self.literal(op[1])
        if k == "fnitem":
            return VFn(op[1])
        raise Unsupported("operand %r" % (op,))

    def rvalue(self, st, depth, rv):
        B = st.B
        k = rv[0]
        if k == "use":
            return self.operand(st, depth, rv[1])
        if k == "bin":
            a = self.operand(st, depth, rv[2])
            b = self.operand(st, depth, rv[3])
            return self.binop(st, rv[1], a, b)
        if k == "un":
            a = self.operand(st, depth, rv[2])
            return self.unop(st, rv[1], a)
        if k == "cast":
            a = self.operand(st, depth, rv[1])
            return self.cast(st, a, rv[2], rv[3])
        if k == "ref":
            fd, local, path, cbase = self.resolve(st, depth, rv[1])
            if cbase is not None:
                return VRef(None, None, path, const=cbase)
            return VRef(fd, local, path)
        if k == "tuple":
            return VTuple([self.operand(st, depth, o) for o in rv[1]])
        if k == "array":
            return VArray([self.operand(st, depth, o) for o in rv[1]])
        if k == "adt":
            return VTuple([self.operand(st, depth, o) for (_f, o) in rv[2]], rv[1])
        if k == "variant":
            name = rv[1]
            m = re.match(r"^(.*)::(\w+)$", strip_generics(name))
            if not m:
                raise Unsupported("variant aggregate " + name)
            return VVariant(m.group(1), m.group(2), [self.operand(st, depth, o) for o in rv[2]])
        if k == "discr":
            v = self.read(st, depth, rv[1])
            if isinstance(v, VVariant):
                if v.variant not in VARIANT_INDEX:
                    raise Unsupported("discriminant of " + v.variant)
                return VInt(T.const(VARIANT_INDEX[v.variant]), 64, True)
            raise Unsupported("discriminant of %r" % (v,))
        if k == "len":
            v = self.read(st, depth, rv[1])
            return VInt(T.const(len(v.items)), 64, False)
        raise Unsupported("rvalue %r" % (rv,))

    def concretize(self, st, t, what):
        B = st.B
        cv = B.cval(t)
        if cv is not None:
            return cv
        lo, hi = B.rng(t)
        if hi - lo + 1 > self.max_fork_values:
            raise Unsupported("%s has range [%d,%d]: too wide to case-split" % (what, lo, hi))
        raise Fork([B.eq(t, T.const(x)) for x in range(lo, hi + 1)], what)

    def binop(self, st, op, a, b):
        B = st.B
        if isinstance(a, VBool) and isinstance(b, VBool):
            if op == "BitAnd":
                return VBool(B.band_bool(a.t, b.t))
            if op == "BitOr":
                return VBool(B.bor_bool(a.t, b.t))
            if op == "BitXor" or op == "Ne":
                return VBool(B.bxor_bool(a.t, b.t))
            if op == "Eq":
                return VBool(B.beq_bool(a.t, b.t))
            raise Unsupported("bool binop " + op)
        if isinstance(a, VFloat) or isinstance(b, VFloat):
            raise Unsupported("float binop " + op)
        if not (isinstance(a, VInt) and isinstance(b, VInt)):
            raise Unsupported("binop %s on %r, %r" % (op, a, b))
        bits, signed = a.bits, a.signed
        lo_t = -(1 << (bits - 1)) if signed else 0
        hi_t = (1 << (bits - 1)) - 1 if signed else (1 << bits) - 1

        def mk(t):
            return VInt(B.wrap(t, bits, signed), bits, signed)

        if op in ("Add", "AddUnchecked"):
            return mk(B.add(a.t, b.t))
        if op in ("Sub", "SubUnchecked"):
            return mk(B.sub(a.t, b.t))
        if op in ("Mul", "MulUnchecked"):
            return mk(B.mul(a.t, b.t))
        if op in ("AddWithOverflow", "SubWithOverflow", "MulWithOverflow"):
            f = {"A": B.add, "S": B.sub, "M": B.mul}[op[0]]
            z = f(a.t, b.t)
            ovf = B.bor_bool(B.lt(z, T.const(lo_t)), B.gt(z, T.const(hi_t)))
            return VTuple([mk(z), VBool(ovf)])
        if op in ("Eq", "Ne", "Lt", "Le", "Gt", "Ge"):
            f = {"Eq": B.eq, "Ne": B.ne, "Lt": B.lt, "Le": B.le, "Gt": B.gt, "Ge": B.ge}[op]
            return VBool(f(a.t, b.t))
        if op == "BitAnd":
            if signed:
                lo, _ = B.rng(a.t)
                lo2, _ = B.rng(b.t)
                if lo < 0 or lo2 < 0:
                    raise Unsupported("BitAnd on possibly negative signed values")
            return VInt(B.band(a.t, b.t), bits, signed)
        if op == "BitOr":
            return VInt(B.bor(a.t, b.t), bits, signed)
        if op == "BitXor":
            return VInt(B.bxor(a.t, b.t), bits, signed)
        if op in ("Shl", "Shr", "ShlUnchecked", "ShrUnchecked"):
            s = self.concretize(st, b.t, "shift amount")
            s = s % bits    # release semantics: the count is masked (checked builds assert first)
            if op.startswith("Shl"):
                return mk(B.mul(a.t, T.const(1 << s)))
            return VInt(B.div(a.t, 1 << s), bits, signed)
        if op in ("Div", "Rem"):
            d = B.cval(b.t)
            if d is None:
                raise Unsupported("division by a symbolic value")
            if d == 0:
                raise Unsupported("division by zero reached without assert")
            lo, hi = B.rng(a.t)
            if d > 0 and lo >= 0:
                q = B.div(a.t, d)
                if op == "Div":
                    return VInt(q, bits, signed)
                return VInt(B.mod(a.t, d), bits, signed)
            if d > 0:
                # truncating division for possibly negative numerators
                av = B.cval(a.t)
                if av is not None:
                    q = abs(av) // d * (1 if av >= 0 else -1)
                    return VInt(T.const(q if op == "Div" else av - q * d), bits, signed)
                neg = B.lt(a.t, T.const(0))
                qpos = B.div(a.t, d)
                qneg = B.neg(B.div(B.neg(a.t), d))
                q = B.ite(neg, qneg, qpos)
                if op == "Div":
                    return VInt(q, bits, signed)
                return VInt(B.sub(a.t, B.mul(q, T.const(d))), bits, signed)
            raise Unsupported("division by negative constant")
        raise Unsupported("binop " + op)

    def unop(self, st, op, a):
        B = st.B
        if op == "Not":
            if isinstance(a, VBool):
                return VBool(B.bnot(a.t))
            if a.signed:
                return VInt(B.sub(T.const(-1), a.t), a.bits, True)
            return VInt(B.sub(T.const((1 << a.bits) - 1), a.t), a.bits, False)
        if op == "Neg":
            return VInt(B.wrap(B.neg(a.t), a.bits, a.signed), a.bits, a.signed)
        if op == "PtrMetadata":
            if isinstance(a, VRef):
                tgt = self._get(st, a.frame, a.local, list(a.path), a.const)
                if isinstance(tgt, VArray):
                    return VInt(T.const(len(tgt.items)), 64, False)
            raise Unsupported("PtrMetadata of %r" % (a,))
        raise Unsupported("unop " + op)

    def cast(self, st, a, ty, kind):
        B = st.B
        if kind == "IntToInt":
            if ty not in INT_TYPES:
                raise Unsupported("cast to " + ty)
            bits, signed = INT_TYPES[ty]
            if isinstance(a, VBool):
                return VInt(B.b2i(a.t), bits, signed)
            if isinstance(a, VVariant):
                return VInt(T.const(VARIANT_INDEX[a.variant]), bits, signed)
            return VInt(B.wrap(a.t, bits, signed), bits, signed)
        if kind == "IntToFloat":
            return VFloat(("from_int", a.t, a.bits, a.signed), ty)
        if kind.startswith("PointerCoercion"):
            return a
        if kind == "Transmute":
            if isinstance(a, VInt) and ty in ("f32", "f64"):
                return VFloat(("bits", a.t), ty)
            if isinstance(a, VFloat) and a.d[0] == "bits" and ty in INT_TYPES:
                bits, signed = INT_TYPES[ty]
                return VInt(a.d[1], bits, signed)
        raise Unsupported("cast kind %s to %s of %r" % (kind, ty, a))

    # ---- calls ---------------------------------------------------------------------------
    def do_call(self, st, depth, term):
        _k, dest, callee, argops, ret_bb = term
        fr = st.frames[depth]
        B = st.B
        name = strip_generics(callee)
        if name.startswith("core::panicking::") or name.startswith("std::rt::") or "panic" in name.split("::")[-1] \
                or name.endswith("::unwrap_failed") or name.endswith("::expect_failed"):
            msg = ""
            if argops and argops[0][0] == "const":
                msg = argops[0][1][:80]
            return Leaf("panic", None, st, info=name + " " + msg + " @" + fr.body.name)
        args = [self.operand(st, depth, o) for o in argops]

        def done(val):
            if ret_bb is None:
                return Leaf("panic", None, st, info="diverging call " + callee)
            if dest is not None:
                self.write(st, depth, dest, val)
            fr.bb = ret_bb
            return None

        if name in self.stubs:
            return done(self.stubs[name](self, st, args))

        # closures / fn pointers -----------------------------------------------------
        m = re.match(r"^<(.+) as Fn(?:Mut|Once)?<.*>>::call(?:_mut|_once)?$", name)
        if m:
            clos = args[0]
            if isinstance(clos, VRef):
                clos = self._get(st, clos.frame, clos.local, list(clos.path), clos.const)
                clos_arg = args[0]
            else:
                clos_arg = None
            spread = list(args[1].items)
            if isinstance(clos, VFn):
                body = self.find_fn(clos.name)
                return self.push(st, depth, body, spread, dest, ret_bb)
            if isinstance(clos, VTuple) and clos.kind in self._closure_fns:
                body = self._closure_fns[clos.kind]
                if clos_arg is None:
                    raise Unsupported("closure called by value")
                return self.push(st, depth, body, [clos_arg] + spread, dest, ret_bb)
            raise Unsupported("call through %r" % (clos,))

        # core integer intrinsics ---------------------------------------------------------
        m = re.match(r"^core::num::<impl ([ui]\w+)>::(\w+)$", name)
        if m:
            bits, signed = INT_TYPES[m.group(1)]
            meth = m.group(2)
            return done(self.int_method(st, meth, bits, signed, args))
        m = re.match(r"^<([ui]\w+) as Ord>::(min|max)$", name) or re.match(r"^(?:core|std)::cmp::(min|max)::<([ui]\w+)>$", callee)
        if m:
            a, b = args
            c = B.le(a.t, b.t)
            which = "min" if "min" in name.split("::")[-1] else "max"
            t = B.ite(c, a.t, b.t) if which == "min" else B.ite(c, b.t, a.t)
            return done(VInt(t, a.bits, a.signed))
        if re.match(r"^<Option<.*> as Try>::branch$", name):
            v = args[0]
            if v.variant == "Some":
                return done(VVariant("ControlFlow", "Continue", v.items))
            return done(VVariant("ControlFlow", "Break", [VVariant("Option", "None")]))
        if re.match(r"^<Option<.*> as FromResidual<.*>>::from_residual$", name):
            return done(VVariant("Option", "None"))
        m = re.match(r"^core::slice::<impl \[.*\]>::get_unchecked::<usize>$", callee) or \
            re.match(r"^core::slice::<impl \[.*\]>::get_unchecked$", name)
        if m:
            ref, idx = args
            arr = self._get(st, ref.frame, ref.local, list(ref.path), ref.const)
            n = len(arr.items)
            inb = B.lt(idx.t, T.const(n))
            inb = B.norm(inb)
            if inb is T.FALSE:
                return Leaf("ub", None, st, info="get_unchecked index >= %d on %s @%s" % (n, arr.name, fr.body.name))
            if inb is not T.TRUE:
                raise Fork([inb, B.bnot(inb)], "get_unchecked bounds")
            cv = self.concretize(st, idx.t, "get_unchecked index")
            st.log.append(("get_unchecked", arr.name, cv, n))
            return done(VRef(ref.frame, ref.local, list(ref.path) + [("idx", cv)], const=ref.const))
        m = re.match(r"^<(F|f32|f64) as (Mul|Div|Add|Sub)>::(\w+)$", name)
        if m:
            v = VFloat(("f" + m.group(3), args[0], args[1]), self.fty)
            st.log.append(("float_op", m.group(3), args[0], args[1]))
            return done(v)
        m = re.match(r"^(?:core|std)::f(32|64)::<impl f(?:32|64)>::(from_bits|to_bits)$", name)
        if m:
            if m.group(2) == "from_bits":
                return done(VFloat(("bits", args[0].t), "f" + m.group(1)))
            a = args[0]
            if a.d[0] == "bits":
                return done(VInt(a.d[1], int(m.group(1)), False))
            raise Unsupported("to_bits of a computed float")
        m = re.match(r"^<(\w+) as PartialEq>::(eq|ne)$", name)
        if m:
            cands = [it for nm, it in self.mir.items.items()
                     if nm.endswith(">::eq") and it.params and it.params[0][1] == "&" + m.group(1)]
            if len(cands) != 1:
                raise Unsupported("PartialEq impl for " + m.group(1))
            if m.group(2) == "eq":
                return self.push(st, depth, cands[0], args, dest, ret_bb)
            # ne: run eq, then negate when it returns
            return self.push(st, depth, cands[0], args, dest, ret_bb, post="not")
        if re.match(r"^<.* as From<.*>>::from$", name) or re.match(r"^<.* as Into<.*>>::into$", name):
            cands = [it for nm, it in self.mir.items.items() if re.search(r"<impl at [^>]*>::from$", nm)]
            if len(cands) == 1:
                return self.push(st, depth, cands[0], args, dest, ret_bb)
        # crate functions ------------------------------------------------------------------
        body = self.find_fn(callee)
        if body is None:
            raise Unsupported("unmodelled callee: " + callee)
        return self.push(st, depth, body, args, dest, ret_bb)

    def push(self, st, depth, body, args, dest, ret_bb, post=None):
        if len(args) != len(body.params):
            raise Unsupported("arity mismatch calling %s" % body.name)
        if len(st.frames) > 40:
            raise Unsupported("call depth")
        if post == "not":
            # wrap: allocate a shim frame that negates the boolean result
            shim = _NOT_SHIM
            sf = Frame(shim, (dest), ret_bb)
            st.frames.append(sf)
            nf = Frame(body, Place(1, ()), "bb1")
            st.frames.append(nf)
        else:
            nf = Frame(body, dest, ret_bb)
            st.frames.append(nf)
        for (n, _ty), v in zip(body.params, args):
            nf.locals[n] = v
        return None

    def int_method(self, st, meth, bits, signed, args):
        B = st.B
        lo_t = -(1 << (bits - 1)) if signed else 0
        hi_t = (1 << (bits - 1)) - 1 if signed else (1 << bits) - 1
        a = args[0]

        def mk(t):
            return VInt(B.wrap(t, bits, signed), bits, signed)

        if meth == "leading_zeros":
            if signed:
                raise Unsupported("leading_zeros on signed")
            lo, hi = B.rng(a.t)
            klo = bits - hi.bit_length()
            khi = bits - lo.bit_length()
            if klo == khi:
                return VInt(T.const(klo), 32, False)
            alts = []
            for k in range(klo, khi + 1):
                if k == bits:
                    alts.append(B.eq(a.t, T.const(0)))
                else:
                    alts.append(B.band_bool(B.ge(a.t, T.const(1 << (bits - 1 - k))),
                                            B.lt(a.t, T.const(1 << (bits - k)))))
            raise Fork(alts, "leading_zeros class")
        if meth in ("wrapping_add", "wrapping_sub", "wrapping_mul"):
            f = {"wrapping_add": B.add, "wrapping_sub": B.sub, "wrapping_mul": B.mul}[meth]
            return mk(f(a.t, args[1].t))
        if meth in ("overflowing_add", "overflowing_sub", "overflowing_mul"):
            f = {"overflowing_add": B.add, "overflowing_sub": B.sub, "overflowing_mul": B.mul}[meth]
            z = f(a.t, args[1].t)
            ovf = B.bor_bool(B.lt(z, T.const(lo_t)), B.gt(z, T.const(hi_t)))
            return VTuple([mk(z), VBool(ovf)])
        if meth in ("checked_add", "checked_sub", "checked_mul"):
            f = {"checked_add": B.add, "checked_sub": B.sub, "checked_mul": B.mul}[meth]
            z = f(a.t, args[1].t)
            ok = B.band_bool(B.ge(z, T.const(lo_t)), B.le(z, T.const(hi_t)))
            ok = B.norm(ok)
            if ok is T.TRUE:
                return VVariant("Option", "Some", [VInt(z, bits, signed)])
            if ok is T.FALSE:
                return VVariant("Option", "None")
            raise Fork([ok, B.bnot(ok)], "checked arithmetic")
        if meth in ("saturating_add", "saturating_sub"):
            f = B.add if meth == "saturating_add" else B.sub
            z = f(a.t, args[1].t)
            r = B.ite(B.lt(z, T.const(lo_t)), T.const(lo_t), B.ite(B.gt(z, T.const(hi_t)), T.const(hi_t), z))
            return VInt(r, bits, signed)
        if meth == "pow":
            base = B.cval(a.t)
            e = B.cval(args[1].t)
            if base is None or e is None:
                raise Unsupported("pow with symbolic arguments")
            return mk(T.const(base ** e))
        if meth in ("min", "max"):
            b = args[1]
            c = B.le(a.t, b.t)
            return VInt(B.ite(c, a.t, b.t) if meth == "min" else B.ite(c, b.t, a.t), bits, signed)
        if meth in ("max_value", "min_value"):
            return VInt(T.const(hi_t if meth == "max_value" else lo_t), bits, signed)
        raise Unsupported("integer method " + meth)


# A tiny synthetic body:  _0 = Not(_1)   used to implement `ne` through the derived `eq`.
class _Shim(object):
    name = "<not-shim>"
    kind = "fn"
    params = []
    ret = "bool"
    locals = {}
    blocks = {"bb1": ([(Place(0, ()), ("un", "Not", ("copy", Place(1, ()))))], ("return",))}


_NOT_SHIM = _Shim()


def strip_generics(name):
    """Remove ::<...> generic argument lists from a path."""
    out = []
    i, n = 0, len(name)
    while i < n:
        if name.startswith("::<", i) and not name.startswith("::<impl ", i):
            depth = 0
            j = i + 2
            while j < n:
                c = name[j]
                if c == "-" and j + 1 < n and name[j + 1] == ">":
                    j += 2
                    continue
                if c == "<":
                    depth += 1
                elif c == ">":
                    depth -= 1
                    if depth == 0:
                        break
                j += 1
            i = j + 1
        else:
            out.append(name[i])
            i += 1
    return "".join(out)


def parse_switch_key(key, v):
    k = int(key)
    if v.signed and k >= (1 << (v.bits - 1)):
        k -= 1 << v.bits
    return k


def decode_bytes(data, off, ty):
    """Decode little-endian bytes of a constant allocation according to a type string."""
    ty = ty.strip()
    if ty in INT_TYPES:
        bits, signed = INT_TYPES[ty]
        n = bits // 8
        v = int.from_bytes(data[off:off + n], "little", signed=signed)
        return VInt(T.const(v), bits, signed), n
    if ty in ("f32", "f64"):
        n = 4 if ty == "f32" else 8
        v = int.from_bytes(data[off:off + n], "little")
        return VFloat(("bits", T.const(v)), ty), n
    if ty.startswith("[") and ty.endswith("]"):
        inner = ty[1:-1]
        k = inner.rfind(";")
        elem, cnt = inner[:k].strip(), int(inner[k + 1:].strip())
        items = []
        used = 0
        for _ in range(cnt):
            v, n = decode_bytes(data, off + used, elem)
            items.append(v)
            used += n
        return VArray(items), used
    if ty.startswith("(") and ty.endswith(")"):
        parts = [p for p in split_top(ty[1:-1]) if p]
        sizes = set()
        items = []
        used = 0
        for p in parts:
            v, n = decode_bytes(data, off + used, p)
            sizes.add(n)
            items.append(v)
            used += n
        if len(sizes) > 1:
            raise Unsupported("tuple with mixed field sizes in constant: " + ty)
        return VTuple(items), used
    raise Unsupported("constant of type " + ty)
