"""Term layer for the MIR symbolic executor.

Every numeric term denotes a *mathematical integer* together with a sound
interval [lo, hi] and a known number of trailing zero bits (tz).  Machine
typing (u64 wrap-around, i32 two's complement, ...) is imposed by the executor
through `wrap`.  Boolean terms are separate.  Terms are hash-consed; the key
includes the interval because intervals may have been tightened under a path
condition and must not leak into other paths.

Two emitters exist for the same DAG: `emit_int` (SMT-LIB, mathematical
integers: proof side) and `emit_bv` (SMT-LIB QF_BV with per-node widths:
falsification side).
"""
import itertools

INF_TZ = 1 << 30


class Unsupported(Exception):
    pass


class Fork(Exception):
    """Raised inside pure evaluation: `alts` is a list of boolean terms that partition the path."""

    def __init__(self, alts, why=""):
        Exception.__init__(self, why)
        self.alts = alts
        self.why = why


class Term(object):
    __slots__ = ("op", "args", "val", "lo", "hi", "tz", "id", "isbool", "_h")
    _ids = itertools.count(1)

    def __repr__(self):
        if self.op == "const":
            return "#%d" % self.val
        if self.op == "var":
            return "%s" % self.val
        if self.op in ("true", "false"):
            return self.op
        return "%s(%s)" % (self.op, ",".join(repr(a) for a in self.args))


_table = {}


def _mk(op, args, val, lo, hi, tz, isbool):
    key = (op, tuple(a.id for a in args), val, lo, hi, tz)
    t = _table.get(key)
    if t is not None:
        return t
    t = Term()
    t.op, t.args, t.val, t.lo, t.hi, t.tz, t.isbool = op, tuple(args), val, lo, hi, tz, isbool
    t.id = next(Term._ids)
    _table[key] = t
    return t


def reset():
    _table.clear()


def _ctz(v):
    if v == 0:
        return INF_TZ
    return (v & -v).bit_length() - 1


def const(v):
    v = int(v)
    return _mk("const", (), v, v, v, _ctz(v), False)


TRUE = _mk("true", (), None, 1, 1, 0, True)
FALSE = _mk("false", (), None, 0, 0, 0, True)


def boolc(b):
    return TRUE if b else FALSE


def var(name, lo, hi):
    return _mk("var", (), name, lo, hi, 0, False)


def boolvar(name):
    return _mk("var", (), name, 0, 1, 0, True)


def is_const(t):
    return t.op == "const"


class Builder(object):
    """Term constructors that see per-path refined bounds."""

    # A modulus whose argument spans at most this many periods is turned into a case split of the
    # path (each case is then linear: x - k*c) instead of a `mod` term.  Only active while the
    # executor is running (split_mod), never while specifications are being built.
    MAX_MOD_SPLIT = 3

    def __init__(self, bounds=None, split_mod=False):
        self.bounds = dict(bounds) if bounds else {}
        self.split_mod = split_mod

    def clone(self):
        return Builder(self.bounds, self.split_mod)

    # ---- interval view -------------------------------------------------
    def rng(self, t):
        b = self.bounds.get(t.id)
        if b is None:
            return t.lo, t.hi
        return max(t.lo, b[0]), min(t.hi, b[1])

    def cval(self, t):
        """Concrete value if the term is known to be a single value here."""
        if t.isbool:
            return self.bval(t)
        lo, hi = self.rng(t)
        return lo if lo == hi else None

    def bval(self, t, depth=0):
        """Truth value of a boolean term under this path's knowledge, or None."""
        if t.op == "true":
            return True
        if t.op == "false":
            return False
        b = self.bounds.get(t.id)
        if b is not None and b[0] == b[1]:
            return bool(b[0])
        if depth > 6:
            return None
        op = t.op
        if op == "not":
            v = self.bval(t.args[0], depth + 1)
            return None if v is None else (not v)
        if op in ("and", "or"):
            x = self.bval(t.args[0], depth + 1)
            y = self.bval(t.args[1], depth + 1)
            if op == "and":
                if x is False or y is False:
                    return False
                if x is True and y is True:
                    return True
            else:
                if x is True or y is True:
                    return True
                if x is False and y is False:
                    return False
            return None
        if op in ("le", "lt", "eq"):
            (al, ah), (bl, bh) = self.rng(t.args[0]), self.rng(t.args[1])
            if op == "le":
                if ah <= bl:
                    return True
                if al > bh:
                    return False
            elif op == "lt":
                if ah < bl:
                    return True
                if al >= bh:
                    return False
            else:
                if ah < bl or bh < al:
                    return False
                if al == ah == bl == bh:
                    return True
        return None

    def norm(self, t):
        """Replace a term pinned to one value by the constant."""
        if t.op in ("const", "true", "false"):
            return t
        if t.isbool:
            v = self.bval(t)
            return t if v is None else boolc(v)
        lo, hi = self.rng(t)
        if lo == hi:
            return const(lo)
        return t

    def _num(self, op, args, lo, hi, tz=0, val=None):
        if lo > hi:
            # infeasible path: caller will discover through the path condition
            lo, hi = hi, hi
        if lo == hi:
            return const(lo)
        return _mk(op, args, val, lo, hi, tz, False)

    # ---- arithmetic ----------------------------------------------------
    def add(self, a, b):
        a, b = self.norm(a), self.norm(b)
        if is_const(a) and a.val == 0:
            return b
        if is_const(b) and b.val == 0:
            return a
        if is_const(a) and not is_const(b):
            a, b = b, a
        # (x + c1) + c2 -> x + (c1+c2)
        if is_const(b) and a.op == "add" and is_const(a.args[1]):
            return self.add(a.args[0], const(a.args[1].val + b.val))
        (al, ah), (bl, bh) = self.rng(a), self.rng(b)
        return self._num("add", (a, b), al + bl, ah + bh, min(a.tz, b.tz))

    def neg(self, a):
        a = self.norm(a)
        if is_const(a):
            return const(-a.val)
        al, ah = self.rng(a)
        return self._num("neg", (a,), -ah, -al, a.tz)

    def sub(self, a, b):
        a, b = self.norm(a), self.norm(b)
        if is_const(b):
            return self.add(a, const(-b.val))
        if a is b:
            return const(0)
        (al, ah), (bl, bh) = self.rng(a), self.rng(b)
        return self._num("sub", (a, b), al - bh, ah - bl, min(a.tz, b.tz))

    def mul(self, a, b):
        a, b = self.norm(a), self.norm(b)
        if is_const(a) and not is_const(b):
            a, b = b, a
        if is_const(b):
            if b.val == 0:
                return const(0)
            if b.val == 1:
                return a
            if is_const(a):
                return const(a.val * b.val)
            if a.op == "mul" and is_const(a.args[1]):
                return self.mul(a.args[0], const(a.args[1].val * b.val))
        (al, ah), (bl, bh) = self.rng(a), self.rng(b)
        cs = (al * bl, al * bh, ah * bl, ah * bh)
        tz = min(INF_TZ, a.tz + b.tz)
        return self._num("mul", (a, b), min(cs), max(cs), tz)

    def div(self, a, c):
        """floor(a / c), c a positive python int."""
        assert isinstance(c, int) and c > 0
        a = self.norm(a)
        if c == 1:
            return a
        al, ah = self.rng(a)
        ql, qh = al // c, ah // c
        if ql == qh:
            return const(ql)
        tz = 0
        if c & (c - 1) == 0 and a.tz < INF_TZ:
            tz = max(0, a.tz - (c.bit_length() - 1))
        # NOTE: nested floor divisions are deliberately NOT flattened: keeping hi -> hi>>k -> ... as a
        # chain of small-coefficient relations is what lets the LIA solvers finish by LP reasoning
        # (flattened: timeouts; chained: 0.01-0.05 s, measured).
        # (x + x mod 2) div 2 = (x + 1) div 2
        if c == 2 and a.op == "add" and a.args[1].op == "mod" and a.args[1].val == 2 \
                and a.args[1].args[0] is a.args[0]:
            return self.div(self.add(a.args[0], const(1)), 2)
        # div(x*c1, c2) with one constant dividing the other
        if a.op == "mul" and is_const(a.args[1]) and a.args[1].val > 0:
            c1 = a.args[1].val
            if c1 % c == 0:
                return self.mul(a.args[0], const(c1 // c))
            if c % c1 == 0:
                return self.div(a.args[0], c // c1)
        return self._num("div", (a,), ql, qh, tz, val=c)

    def mod(self, a, c):
        """a mod c (non-negative remainder), c a positive python int."""
        assert isinstance(c, int) and c > 0
        a = self.norm(a)
        al, ah = self.rng(a)
        if al // c == ah // c:
            k = al // c
            return self.sub(a, const(k * c))
        if c & (c - 1) == 0 and a.tz >= c.bit_length() - 1:
            return const(0)
        if a.op == "mod" and a.val % c == 0:
            return self.mod(a.args[0], c)
        if self.split_mod and (ah // c - al // c) < self.MAX_MOD_SPLIT:
            alts = []
            for k in range(al // c, ah // c + 1):
                alts.append(self.band_bool(self.ge(a, const(k * c)), self.lt(a, const((k + 1) * c))))
            raise Fork(alts, "modulus period")
        tz = a.tz if a.tz < INF_TZ else 0
        return self._num("mod", (a,), 0, c - 1, tz, val=c)

    def wrap(self, a, bits, signed):
        a = self.norm(a)
        al, ah = self.rng(a)
        if signed:
            half = 1 << (bits - 1)
            if -half <= al and ah < half:
                return a
            return self.sub(self.mod(self.add(a, const(half)), 1 << bits), const(half))
        if 0 <= al and ah < (1 << bits):
            return a
        return self.mod(a, 1 << bits)

    def ite(self, c, x, y):
        c = self.norm(c)
        if c is TRUE:
            return x
        if c is FALSE:
            return y
        x, y = self.norm(x), self.norm(y)
        if x is y:
            return x
        (xl, xh), (yl, yh) = self.rng(x), self.rng(y)
        return self._num("ite", (c, x, y), min(xl, yl), max(xh, yh), min(x.tz, y.tz))

    # ---- bit operations on non-negative values ----------------------------
    def band_const(self, a, mask):
        """a & mask for a >= 0, mask a non-negative python int."""
        a = self.norm(a)
        al, ah = self.rng(a)
        if al < 0:
            raise Unsupported("band on possibly negative value")
        if is_const(a):
            return const(a.val & mask)
        if mask == 0:
            return const(0)
        # decompose mask into runs of ones [s, e)
        runs = []
        m, pos = mask, 0
        while m:
            z = _ctz(m)
            m >>= z
            pos += z
            o = _ctz(~m)
            runs.append((pos, pos + o))
            m >>= o
            pos += o
        res = const(0)
        for (s, e) in runs:
            if ah < (1 << s):
                break
            if a.tz >= e:
                continue
            piece = self.div(a, 1 << s) if s else a
            pl, ph = self.rng(piece)
            if ph >= (1 << (e - s)):
                piece = self.mod(piece, 1 << (e - s))
            if s:
                piece = self.mul(piece, const(1 << s))
            res = self.add(res, piece)
        return res

    def band(self, a, b):
        a, b = self.norm(a), self.norm(b)
        if is_const(b):
            return self.band_const(a, b.val)
        if is_const(a):
            return self.band_const(b, a.val)
        raise Unsupported("band of two symbolic values")

    def bor(self, a, b):
        a, b = self.norm(a), self.norm(b)
        if is_const(a) and is_const(b):
            return const(a.val | b.val)
        (al, ah), (bl, bh) = self.rng(a), self.rng(b)
        if al < 0 or bl < 0:
            raise Unsupported("bor on possibly negative value")
        if b.tz < INF_TZ and ah < (1 << b.tz):
            return self.add(a, b)
        if a.tz < INF_TZ and bh < (1 << a.tz):
            return self.add(a, b)
        if is_const(a) and a.val == 0:
            return b
        if is_const(b) and b.val == 0:
            return a
        n = max(ah, bh).bit_length()
        return self._num("bor", (a, b), max(al, bl), (1 << n) - 1, min(a.tz, b.tz))

    def bxor(self, a, b):
        a, b = self.norm(a), self.norm(b)
        if is_const(a) and is_const(b):
            return const(a.val ^ b.val)
        if is_const(a):
            a, b = b, a
        al, ah = self.rng(a)
        if is_const(b) and b.val == 1 and al >= 0 and ah <= 1:
            return self.sub(const(1), a)
        if is_const(b) and b.val == 0:
            return a
        raise Unsupported("general bxor")

    # ---- comparisons ---------------------------------------------------
    def _cmp(self, op, a, b):
        return _mk(op, (a, b), None, 0, 1, 0, True)

    def le(self, a, b):
        a, b = self.norm(a), self.norm(b)
        (al, ah), (bl, bh) = self.rng(a), self.rng(b)
        if ah <= bl:
            return TRUE
        if al > bh:
            return FALSE
        return self._cmp("le", a, b)

    def lt(self, a, b):
        a, b = self.norm(a), self.norm(b)
        (al, ah), (bl, bh) = self.rng(a), self.rng(b)
        if ah < bl:
            return TRUE
        if al >= bh:
            return FALSE
        return self._cmp("lt", a, b)

    def ge(self, a, b):
        return self.le(b, a)

    def gt(self, a, b):
        return self.lt(b, a)

    def eq(self, a, b):
        a, b = self.norm(a), self.norm(b)
        if a is b:
            return TRUE
        (al, ah), (bl, bh) = self.rng(a), self.rng(b)
        if ah < bl or bh < al:
            return FALSE
        if al == ah == bl == bh:
            return TRUE
        # different residues modulo a power of two can never be equal
        t = min(a.tz, b.tz)
        if is_const(a) and b.tz < INF_TZ and b.tz > 0 and a.val % (1 << b.tz) != 0:
            return FALSE
        if is_const(b) and a.tz < INF_TZ and a.tz > 0 and b.val % (1 << a.tz) != 0:
            return FALSE
        return self._cmp("eq", a, b)

    def ne(self, a, b):
        return self.bnot(self.eq(a, b))

    # ---- booleans --------------------------------------------------------
    def bnot(self, a):
        a = self.norm(a)
        if a is TRUE:
            return FALSE
        if a is FALSE:
            return TRUE
        if a.op == "not":
            return a.args[0]
        return _mk("not", (a,), None, 0, 1, 0, True)

    def band_bool(self, a, b):
        a, b = self.norm(a), self.norm(b)
        if a is FALSE or b is FALSE:
            return FALSE
        if a is TRUE:
            return b
        if b is TRUE:
            return a
        if a is b:
            return a
        return _mk("and", (a, b), None, 0, 1, 0, True)

    def bor_bool(self, a, b):
        a, b = self.norm(a), self.norm(b)
        if a is TRUE or b is TRUE:
            return TRUE
        if a is FALSE:
            return b
        if b is FALSE:
            return a
        if a is b:
            return a
        return _mk("or", (a, b), None, 0, 1, 0, True)

    def bxor_bool(self, a, b):
        a, b = self.norm(a), self.norm(b)
        if a is FALSE:
            return b
        if b is FALSE:
            return a
        if a is TRUE:
            return self.bnot(b)
        if b is TRUE:
            return self.bnot(a)
        return _mk("xorb", (a, b), None, 0, 1, 0, True)

    def beq_bool(self, a, b):
        return self.bnot(self.bxor_bool(a, b))

    def conj(self, ts):
        r = TRUE
        for t in ts:
            r = self.band_bool(r, t)
        return r

    def disj(self, ts):
        r = FALSE
        for t in ts:
            r = self.bor_bool(r, t)
        return r

    def implies(self, a, b):
        return self.bor_bool(self.bnot(a), b)

    def b2i(self, b):
        b = self.norm(b)
        if b is TRUE:
            return const(1)
        if b is FALSE:
            return const(0)
        return _mk("ite", (b, const(1), const(0)), None, 0, 1, 0, False)

    # ---- refinement under an assumed condition -----------------------------
    def set_bounds(self, t, lo, hi):
        """Record lo <= t <= hi on this path and push it through invertible ops."""
        if t.op == "const":
            return
        cl, ch = self.rng(t)
        lo = cl if lo is None else max(cl, lo)
        hi = ch if hi is None else min(ch, hi)
        if (lo, hi) == (cl, ch):
            return
        self.bounds[t.id] = (lo, hi)
        if lo > hi:
            return
        op = t.op
        if op == "add" and is_const(t.args[1]):
            c = t.args[1].val
            self.set_bounds(t.args[0], lo - c, hi - c)
        elif op == "sub" and is_const(t.args[0]):
            c = t.args[0].val
            self.set_bounds(t.args[1], c - hi, c - lo)
        elif op == "neg":
            self.set_bounds(t.args[0], -hi, -lo)
        elif op == "mul" and is_const(t.args[1]) and t.args[1].val > 0:
            c = t.args[1].val
            self.set_bounds(t.args[0], -((-lo) // c), hi // c)
        elif op == "div":
            c = t.val
            self.set_bounds(t.args[0], lo * c, hi * c + c - 1)
        elif op == "ite" and not t.isbool:
            c, x, y = t.args
            xl, xh = self.rng(x)
            yl, yh = self.rng(y)
            x_ok = not (xh < lo or xl > hi)
            y_ok = not (yh < lo or yl > hi)
            if x_ok and not y_ok:
                self.assume(c, True)
                self.set_bounds(x, lo, hi)
            elif y_ok and not x_ok:
                self.assume(c, False)
                self.set_bounds(y, lo, hi)

    def assume(self, c, truth=True):
        """Refine bounds from the assumption that boolean term c has `truth`."""
        if c.op in ("true", "false"):
            return
        self.bounds[c.id] = (1, 1) if truth else (0, 0)
        op = c.op
        if op == "not":
            self.assume(c.args[0], not truth)
        elif op == "and" and truth:
            self.assume(c.args[0], True)
            self.assume(c.args[1], True)
        elif op == "or" and not truth:
            self.assume(c.args[0], False)
            self.assume(c.args[1], False)
        elif op in ("le", "lt", "eq"):
            a, b = c.args
            (al, ah), (bl, bh) = self.rng(a), self.rng(b)
            if op == "eq":
                if truth:
                    lo, hi = max(al, bl), min(ah, bh)
                    self.set_bounds(a, lo, hi)
                    self.set_bounds(b, lo, hi)
                else:
                    # a != b: trim an endpoint when the other side is a constant
                    if bl == bh:
                        if al == bl:
                            self.set_bounds(a, al + 1, None)
                        elif ah == bl:
                            self.set_bounds(a, None, ah - 1)
                    if al == ah:
                        if bl == al:
                            self.set_bounds(b, bl + 1, None)
                        elif bh == al:
                            self.set_bounds(b, None, bh - 1)
                return
            if op == "le":
                strict = not truth  # not(a<=b) = b<a
                if truth:
                    lhs, rhs = a, b
                else:
                    lhs, rhs = b, a
            else:
                strict = truth
                if truth:
                    lhs, rhs = a, b
                else:
                    lhs, rhs = b, a
                    strict = False
            # lhs (<|<=) rhs
            (ll, lh), (rl, rh) = self.rng(lhs), self.rng(rhs)
            d = 1 if strict else 0
            self.set_bounds(lhs, None, rh - d)
            self.set_bounds(rhs, ll + d, None)


def topo(roots):
    """Terms reachable from roots in dependency order."""
    seen = set()
    out = []
    stack = [(r, False) for r in roots]
    while stack:
        t, done = stack.pop()
        if done:
            out.append(t)
            continue
        if t.id in seen:
            continue
        seen.add(t.id)
        stack.append((t, True))
        for a in t.args:
            if a.id not in seen:
                stack.append((a, False))
    return out


def evaluate(root, env):
    """Concrete evaluation of a term DAG (env: var name -> int/bool)."""
    vals = {}
    for t in topo([root]):
        a = [vals[x.id] for x in t.args]
        op = t.op
        if op == "const":
            v = t.val
        elif op == "true":
            v = True
        elif op == "false":
            v = False
        elif op == "var":
            v = env[t.val]
        elif op == "add":
            v = a[0] + a[1]
        elif op == "sub":
            v = a[0] - a[1]
        elif op == "neg":
            v = -a[0]
        elif op == "mul":
            v = a[0] * a[1]
        elif op == "div":
            v = a[0] // t.val
        elif op == "mod":
            v = a[0] % t.val
        elif op == "ite":
            v = a[1] if a[0] else a[2]
        elif op == "bor":
            v = a[0] | a[1]
        elif op == "le":
            v = a[0] <= a[1]
        elif op == "lt":
            v = a[0] < a[1]
        elif op == "eq":
            v = a[0] == a[1]
        elif op == "not":
            v = not a[0]
        elif op == "and":
            v = a[0] and a[1]
        elif op == "or":
            v = a[0] or a[1]
        elif op == "xorb":
            v = bool(a[0]) != bool(a[1])
        else:
            raise Unsupported("evaluate " + op)
        vals[t.id] = v
    return vals[root.id]
