"""Parser for `rustc -Zunpretty=mir` text dumps (the subset this crate produces).

Anything that is not understood raises MirError naming the text: the translator
never guesses and never silently skips a statement.
"""
import re


class MirError(Exception):
    pass


OPEN = "([{<"
CLOSE = ")]}>"


def split_top(s, sep=","):
    """Split on `sep` at bracket depth 0 (counts () [] {} <>, ignores '->' and string literals)."""
    parts, depth, cur, i, n = [], 0, [], 0, len(s)
    instr = False
    while i < n:
        c = s[i]
        if instr:
            cur.append(c)
            if c == "\\":
                cur.append(s[i + 1])
                i += 1
            elif c == '"':
                instr = False
        elif c == '"':
            instr = True
            cur.append(c)
        elif c == "-" and i + 1 < n and s[i + 1] == ">":
            cur.append("->")
            i += 1
        elif c in OPEN:
            depth += 1
            cur.append(c)
        elif c in CLOSE:
            depth -= 1
            cur.append(c)
        elif c == sep and depth == 0:
            parts.append("".join(cur).strip())
            cur = []
        else:
            cur.append(c)
        i += 1
    last = "".join(cur).strip()
    if last or parts:
        parts.append(last)
    return parts


def match_close(s, i):
    """Index of the bracket closing the one at s[i]."""
    depth = 0
    n = len(s)
    j = i
    instr = False
    while j < n:
        c = s[j]
        if instr:
            if c == "\\":
                j += 1
            elif c == '"':
                instr = False
        elif c == '"':
            instr = True
        elif c == "-" and j + 1 < n and s[j + 1] == ">":
            j += 1
        elif c in OPEN:
            depth += 1
        elif c in CLOSE:
            depth -= 1
            if depth == 0:
                return j
        j += 1
    raise MirError("unbalanced: " + s)


# --------------------------------------------------------------------------
# places / operands / rvalues
# --------------------------------------------------------------------------

class Place(object):
    __slots__ = ("local", "proj")

    def __init__(self, local, proj):
        self.local = local
        self.proj = tuple(proj)

    def __repr__(self):
        return "_%d%s" % (self.local, "".join(str(p) for p in self.proj))


def _parse_place(s, i):
    n = len(s)
    proj = []
    if s[i] == "(":
        i += 1
        if s[i] == "*":
            base, i = _parse_place(s, i + 1)
            proj = list(base.proj) + [("deref",)]
            local = base.local
        else:
            base, i = _parse_place(s, i)
            local, proj = base.local, list(base.proj)
        # suffixes inside the parentheses
        while s[i] != ")":
            if s.startswith(" as ", i):
                j = s.index(")", i)
                proj.append(("downcast", s[i + 4:j]))
                i = j
            elif s[i] == ".":
                m = re.match(r"\.(\d+): ", s[i:])
                if not m:
                    raise MirError("field projection: " + s[i:])
                k = int(m.group(1))
                i += m.end()
                # type runs to the matching ')'
                depth, j = 0, i
                while True:
                    c = s[j]
                    if c == "-" and s[j + 1] == ">":
                        j += 2
                        continue
                    if c in OPEN:
                        depth += 1
                    elif c in CLOSE:
                        if depth == 0:
                            break
                        depth -= 1
                    j += 1
                proj.append(("field", k, s[i:j]))
                i = j
            elif s[i] == "[":
                j = match_close(s, i)
                proj.append(_index(s[i + 1:j]))
                i = j + 1
            else:
                raise MirError("place syntax: %r at %d" % (s, i))
        i += 1
    else:
        m = re.match(r"_(\d+)", s[i:])
        if not m:
            raise MirError("place syntax: %r at %d" % (s, i))
        local = int(m.group(1))
        i += m.end()
    while i < n and s[i] == "[":
        j = match_close(s, i)
        proj.append(_index(s[i + 1:j]))
        i = j + 1
    return Place(local, proj), i


def _index(t):
    t = t.strip()
    m = re.match(r"^_(\d+)$", t)
    if m:
        return ("index", int(m.group(1)))
    m = re.match(r"^(\d+) of (\d+)$", t)
    if m:
        return ("constindex", int(m.group(1)))
    raise MirError("index projection: " + t)


def parse_place(s):
    s = s.strip()
    p, i = _parse_place(s, 0)
    if i != len(s):
        raise MirError("trailing text in place: %r" % s)
    return p


def parse_operand(s):
    s = s.strip()
    if s.startswith("no_retag "):
        s = s[9:]
    if s.startswith("copy "):
        return ("copy", parse_place(s[5:]))
    if s.startswith("move "):
        return ("move", parse_place(s[5:]))
    if s.startswith("const "):
        return ("const", s[6:].strip())
    if re.match(r"^[A-Za-z_][\w:]*$", s):
        return ("fnitem", s)
    raise MirError("operand: %r" % s)


BINOPS = {"Add", "Sub", "Mul", "Div", "Rem", "BitAnd", "BitOr", "BitXor", "Shl", "Shr",
          "Eq", "Ne", "Lt", "Le", "Gt", "Ge", "AddWithOverflow", "SubWithOverflow",
          "MulWithOverflow", "AddUnchecked", "SubUnchecked", "MulUnchecked", "ShlUnchecked",
          "ShrUnchecked", "Offset", "Cmp"}
UNOPS = {"Not", "Neg", "PtrMetadata"}


def parse_rvalue(s):
    s = s.strip()
    if s.startswith("no_retag "):
        s = s[9:]
    # cast:  OP as TY (Kind)
    if s.endswith(")") and " as " in s and (s.startswith("copy ") or s.startswith("move ") or s.startswith("const ")):
        # find the kind group
        j = len(s) - 1
        depth = 0
        while j >= 0:
            if s[j] == ")":
                depth += 1
            elif s[j] == "(":
                depth -= 1
                if depth == 0:
                    break
            j -= 1
        if j > 0 and s[j - 1] == " ":
            kind = s[j + 1:-1]
            head = s[:j - 1]
            # split at the last top-level " as "
            parts = _rsplit_as(head)
            if parts and re.match(r"^[A-Z]\w*(\(.*\))?$", kind):
                return ("cast", parse_operand(parts[0]), parts[1], kind)
    if s.startswith("copy ") or s.startswith("move ") or s.startswith("const "):
        return ("use", parse_operand(s))
    if s.startswith("&"):
        t = s[1:]
        for pre in ("raw const ", "raw mut ", "mut ", "fake shallow ", "fake "):
            if t.startswith(pre):
                t = t[len(pre):]
                break
        if t.startswith("(fake) "):
            t = t[7:]
        return ("ref", parse_place(t))
    m = re.match(r"^(\w+)\((.*)\)$", s)
    if m and m.group(1) in BINOPS:
        a = split_top(m.group(2))
        if len(a) != 2:
            raise MirError("binop arity: " + s)
        return ("bin", m.group(1), parse_operand(a[0]), parse_operand(a[1]))
    if m and m.group(1) in UNOPS:
        return ("un", m.group(1), parse_operand(m.group(2)))
    if m and m.group(1) == "discriminant":
        return ("discr", parse_place(m.group(2)))
    if m and m.group(1) == "Len":
        return ("len", parse_place(m.group(2)))
    if s.startswith("(") and match_close(s, 0) == len(s) - 1:
        inner = s[1:-1].strip()
        if inner == "":
            return ("tuple", [])
        return ("tuple", [parse_operand(x) for x in split_top(inner) if x != ""])
    if s.startswith("[") and match_close(s, 0) == len(s) - 1:
        inner = s[1:-1]
        semi = split_top(inner, ";")
        if len(semi) == 2:
            return ("repeat", parse_operand(semi[0]), semi[1].strip())
        return ("array", [parse_operand(x) for x in split_top(inner) if x != ""])
    # struct / closure aggregate:  Path { f: op, ... }
    if s.endswith("}"):
        # find the opening brace of the field list (last top-level " {")
        j = _field_brace(s)
        if j is not None:
            name = s[:j].strip()
            body = s[j + 1:-1].strip()
            fields = []
            for f in split_top(body):
                if f == "":
                    continue
                k = f.index(": ")
                fields.append((f[:k].strip(), parse_operand(f[k + 2:])))
            return ("adt", name, fields)
    # enum variant aggregate:  Path::Variant(op, ..)  or unit variant Path::Variant
    if s.endswith(")"):
        j = _open_of_last_group(s)
        name = s[:j]
        args = [parse_operand(x) for x in split_top(s[j + 1:-1]) if x != ""]
        return ("variant", name, args)
    if re.match(r"^[\w:<>, &'\[\];()]+$", s):
        return ("variant", s, [])
    raise MirError("rvalue: %r" % s)


def _rsplit_as(head):
    depth = 0
    i = len(head) - 1
    while i >= 0:
        c = head[i]
        if c in CLOSE and not (c == ">" and i > 0 and head[i - 1] == "-"):
            depth += 1
        elif c in OPEN:
            depth -= 1
        elif depth == 0 and head.startswith(" as ", i):
            return head[:i], head[i + 4:]
        i -= 1
    return None


def _field_brace(s):
    # s ends with '}' ; find its matching '{'
    depth = 0
    i = len(s) - 1
    while i >= 0:
        c = s[i]
        if c == "}":
            depth += 1
        elif c == "{":
            depth -= 1
            if depth == 0:
                if i > 0 and s[i - 1] == " ":
                    return i
                return None
        i -= 1
    return None


def _open_of_last_group(s):
    depth = 0
    i = len(s) - 1
    while i >= 0:
        c = s[i]
        if c == ")":
            depth += 1
        elif c == "(":
            depth -= 1
            if depth == 0:
                return i
        i -= 1
    raise MirError("call syntax: " + s)


# --------------------------------------------------------------------------
# items
# --------------------------------------------------------------------------

class Body(object):
    def __init__(self, name, kind):
        self.name = name
        self.kind = kind          # 'fn' | 'const' | 'promoted'
        self.params = []          # [(local, type)]
        self.ret = None
        self.locals = {}          # n -> type
        self.blocks = {}          # 'bbN' -> (stmts, term)
        self.value = None         # for `const X: T = const V;`
        self.line = 0


def _parse_term(t):
    t = t.strip()
    if t.endswith(";"):
        t = t[:-1]
    if t == "return":
        return ("return",)
    if t in ("unreachable", "resume", "abort") or t.startswith("resume") or t.startswith("terminate"):
        return ("unreachable", t)
    m = re.match(r"^goto -> (bb\d+)$", t)
    if m:
        return ("goto", m.group(1))
    if t.startswith("switchInt("):
        j = match_close(t, len("switchInt"))
        op = parse_operand(t[len("switchInt("):j])
        rest = t[j + 1:].strip()
        m = re.match(r"^-> \[(.*)\]$", rest)
        targets = []
        for part in split_top(m.group(1)):
            k, v = part.split(": ")
            targets.append((k.strip(), v.strip()))
        return ("switch", op, targets)
    if t.startswith("assert("):
        j = match_close(t, len("assert"))
        args = split_top(t[len("assert("):j])
        cond = args[0]
        expected = True
        if cond.startswith("!"):
            expected = False
            cond = cond[1:]
        m = re.search(r"success: (bb\d+)", t[j:])
        return ("assert", parse_operand(cond), expected, args[1], m.group(1))
    if t.startswith("drop("):
        m = re.search(r"return: (bb\d+)", t)
        return ("goto", m.group(1))
    # call:  [DEST = ] CALLEE(ARGS) -> [return: bbN, unwind ...]  |  -> unwind ...
    k = t.rfind(" -> ")
    if k < 0:
        raise MirError("terminator: %r" % t)
    head, tail = t[:k], t[k + 4:]
    m = re.search(r"return: (bb\d+)", tail)
    ret = m.group(1) if m else None
    dest = None
    m = re.match(r"^(\(?[\w*().: \[\]]*?\)?) = ", head)
    eq = head.find(" = ")
    if eq > 0:
        try:
            dest = parse_place(head[:eq])
            head = head[eq + 3:]
        except MirError:
            dest = None
    j = _open_of_last_group(head)
    callee = head[:j].strip()
    args = [parse_operand(x) for x in split_top(head[j + 1:-1]) if x != ""]
    return ("call", dest, callee, args, ret)


def _parse_stmt(t):
    t = t.strip()
    if t.endswith(";"):
        t = t[:-1]
    if t.startswith(("StorageLive", "StorageDead", "nop", "FakeRead", "PlaceMention", "Retag",
                     "AscribeUserType", "Coverage", "ConstEvalCounter", "BackwardIncompatibleDropHint")):
        return None
    if t.startswith("assume("):
        return None
    eq = t.find(" = ")
    if eq < 0:
        raise MirError("statement: %r" % t)
    return (parse_place(t[:eq]), parse_rvalue(t[eq + 3:]))


HDR_FN = re.compile(r"^fn (.+?)\((_1: .*)?\) -> (.+) \{$")
HDR_CONST = re.compile(r"^(?:const|static(?: mut)?) (.+?): (.+) = (.*)$")


def _const_header(ln):
    t = ln.split(" ", 1)[1]
    if t.startswith("mut "):
        t = t[4:]
    depth = 0
    for i, c in enumerate(t):
        if c == "<":
            depth += 1
        elif c == ">" and not (i > 0 and t[i - 1] == "-"):
            depth -= 1
        elif depth == 0 and t.startswith(": ", i):
            name = t[:i]
            rest = t[i + 2:]
            k = rest.rfind(" = ")
            if k < 0:
                return None
            return name, rest[:k], rest[k + 3:]
    return None


class Mir(object):
    def __init__(self, text):
        self.items = {}      # name -> Body (first occurrence wins; CTFE duplicates ignored)
        self.allocs = {}     # 'allocN' -> (static name or None, bytes)
        self.text = text
        self._parse(text)

    def _parse(self, text):
        lines = text.split("\n")
        i, n = 0, len(lines)
        while i < n:
            ln = lines[i]
            if ln.startswith("fn "):
                m = HDR_FN.match(ln)
                if not m:
                    raise MirError("fn header: " + ln)
                b = Body(m.group(1), "fn")
                b.line = i + 1
                if m.group(2):
                    for p in split_top(m.group(2)):
                        k = p.index(": ")
                        b.params.append((int(p[1:k]), p[k + 2:]))
                        b.locals[int(p[1:k])] = p[k + 2:]
                b.ret = m.group(3)
                i = self._parse_body(lines, i + 1, b)
                self.items.setdefault(b.name, b)
            elif ln.startswith("const ") or ln.startswith("static "):
                m = _const_header(ln)
                if not m:
                    raise MirError("const header: " + ln)
                b = Body(m[0], "const")
                b.line = i + 1
                b.ret = m[1]
                rhs = m[2]
                if rhs == "{":
                    i = self._parse_body(lines, i + 1, b)
                else:
                    b.value = rhs.rstrip(";")
                    if b.value.startswith("const "):
                        b.value = b.value[6:]
                    i += 1
                self.items.setdefault(b.name, b)
            elif ln.startswith("alloc"):
                m = re.match(r"^(alloc\d+) \((?:static: ([^,]+), )?size: (\d+), align: (\d+)\) \{$", ln)
                if not m:
                    raise MirError("alloc header: " + ln)
                data = bytearray()
                i += 1
                while not lines[i].startswith("}"):
                    mm = re.match(r"^\s+(?:0x[0-9a-f]+ │ )?(.*?) │", lines[i])
                    if mm:
                        for tok in mm.group(1).split():
                            if re.match(r"^[0-9a-f]{2}$", tok):
                                data.append(int(tok, 16))
                            elif tok == "__":
                                data.append(0)
                            else:
                                data = None
                                break
                    if data is None:
                        break
                    i += 1
                while not lines[i].startswith("}"):
                    i += 1
                if data is not None and len(data) == int(m.group(3)):
                    self.allocs[m.group(1)] = (m.group(2), bytes(data))
                i += 1
            else:
                i += 1

    def _parse_body(self, lines, i, b):
        cur = None
        while True:
            ln = lines[i]
            if ln == "}":
                return i + 1
            s = ln.strip()
            i += 1
            if not s or s.startswith("//") or s.startswith("debug ") or s.startswith("scope ") or s == "}":
                continue
            m = re.match(r"^let (?:mut )?_(\d+): (.+);$", s)
            if m and cur is None:
                b.locals[int(m.group(1))] = m.group(2)
                continue
            m = re.match(r"^(bb\d+)(?: \(cleanup\))?: \{$", s)
            if m:
                cur = m.group(1)
                body = []
                while lines[i].strip() != "}":
                    t = lines[i].strip()
                    if t and not t.startswith("//"):
                        body.append(t)
                    i += 1
                i += 1
                b.blocks[cur] = body
                continue
            m = re.match(r"^let (?:mut )?_(\d+): (.+);$", s)
            if m:
                b.locals[int(m.group(1))] = m.group(2)
                continue
            raise MirError("body line: %r (%s)" % (s, b.name))

    # lazily parsed blocks ---------------------------------------------------
    def block(self, body, bb):
        blk = body.blocks[bb]
        if isinstance(blk, tuple):
            return blk
        stmts = []
        for t in blk[:-1]:
            st = _parse_stmt(t)
            if st is not None:
                stmts.append(st)
        term = _parse_term(blk[-1])
        body.blocks[bb] = (stmts, term)
        return body.blocks[bb]

    # lookup helpers -----------------------------------------------------------
    def find_suffix(self, suffix, kind=None):
        """Items whose name equals `suffix` or ends with '::'+suffix."""
        out = []
        for nm, it in self.items.items():
            if kind and it.kind != kind:
                continue
            if nm == suffix or nm.endswith("::" + suffix):
                out.append(it)
        return out
