#!/usr/bin/env python3
"""Regenerates /verif/MANIFEST.json from the table below (kept in one place so it is always valid)."""
import json, os, sys
VERIF = os.path.dirname(os.path.dirname(os.path.abspath(__file__)))

CHECKS = {
 "C11": dict(
    category="other",
    text="Bounded-exhaustive symbolic check of the real MIR of the moderate path: per (format, decimal exponent, "
         "leading-zero class) the 64-bit significand is a free solver variable; the negated rounding contract "
         "(definite => correctly rounded for w and, when truncated, for all of [w,w+1)) is refuted by z3/cvc5 or a "
         "counterexample is replayed on the compiled crate. Classes are enumerated (all in thorough, a seeded subset "
         "plus boundary classes in quick); within a class the verdict covers every significand.",
    design_ref="DESIGN.md sections 3 (E1), 6 (C11)",
    note="Trusted: rustc's MIR = compiled code, z3/cvc5, hand models of core integer intrinsics (validated each run "
         "against the compiled crate), the validated summary of bellerophon::mul (proved equal to the MIR body each run). "
         "Declined results are not constrained by C11 itself (their contract is checked for C01/C06).",
    technique="MIR symbolic execution -> SMT (LIA, per-class exhaustive), counterexample replay",
    engine="mir2smt"),
 "C17": dict(
    category="other",
    text="Kani/CBMC proof harnesses over the compiled crate: each float field helper (subnormal test, exponent, "
         "mantissa, raw-bit round trip, field packing, b / b+h) is compared with the IEEE-754 encoding for every bit "
         "pattern - the whole 2^64 (f64) / 2^32 (f32) domain is one symbolic input, so the SAT verdict is exhaustive.",
    design_ref="DESIGN.md sections 3 (E2), 6 (C17)",
    note="Trusted: Kani 0.68 codegen, CBMC 6.11, CaDiCaL. One harness per concrete instantiation (f32, f64).",
    technique="Kani bounded model checking (no loops: complete), vacuity witnesses via kani::cover",
    engine="kani"),
 "C18": dict(
    category="other",
    text="Kani/CBMC proof harnesses: round (nearest-even and truncating callbacks as used at the call sites) packed "
         "through extended_to_float equals a textbook oracle for every significand in [2^63,2^64) and every biased "
         "exponent in [-63,2100] (f64) / [-63,320] (f32); mask helpers for all widths 0..=64.",
    design_ref="DESIGN.md sections 3 (E2), 6 (C18)",
    note="Trusted: Kani 0.68 codegen, CBMC 6.11, CaDiCaL; the oracle (20 lines, in the harness). Counterexamples are "
         "replayed natively with Kani's concrete playback before a VIOLATION is printed.",
    technique="Kani bounded model checking over the full stated domain, concrete-playback replay",
    engine="kani"),
 'C01': dict(
    category='other',
    text='Compositional: per-stage contracts decided by solvers over the real code (MIR->SMT per (format, exponent, leading-zero) class with the significand symbolic; Kani/CBMC for digit loops, rounding, vectors; ground SMT for tables); the step from contracts to the end-to-end statement is a written argument (DESIGN.md section 5). Instantiated for f64: Eisel-Lemire and Bellerophon classes, fast-path window, round primitive, slow-path glue (trace stubs), digit loops, tables, sticky-digit lemma.',
    design_ref='DESIGN.md sections 5, 6 (C01)',
    note='Trusted: composition argument (DESIGN 5), one correctly rounded IEEE multiply/divide on exact operands (O-IEEE), rustc MIR = compiled code, Kani/CBMC, z3/cvc5. Digit strings longer than the harness shapes (24 / 45 digits) are argued, not decided.',
    technique='compositional: MIR->SMT (LIA) + Kani BMC + ground SMT',
    engine='mir2smt+kani'),
 'C02': dict(
    category='other',
    text='Compositional: per-stage contracts decided by solvers over the real code (MIR->SMT per (format, exponent, leading-zero) class with the significand symbolic; Kani/CBMC for digit loops, rounding, vectors; ground SMT for tables); the step from contracts to the end-to-end statement is a written argument (DESIGN.md section 5). Instantiated for f32 (own tie window, 114 digits, 40 guard bits); single rounding: the f32 instantiation is checked directly against the binary32 rounding definition.',
    design_ref='DESIGN.md sections 5, 6 (C02)',
    note='Trusted: composition argument (DESIGN 5), one correctly rounded IEEE multiply/divide on exact operands (O-IEEE), rustc MIR = compiled code, Kani/CBMC, z3/cvc5. Digit strings longer than the harness shapes (24 / 45 digits) are argued, not decided.',
    technique='compositional: MIR->SMT (LIA) + Kani BMC + ground SMT',
    engine='mir2smt+kani'),
 'C03': dict(
    category='other',
    text='Derived: shortest / 9-17-digit renderings w*10^q of x satisfy RN(w*10^q)=x by definition, so the round trip is the correct-rounding contract of the fast/moderate path for <=17-digit significands (decided per class); exact expansions stay below MAX_DIGITS (sticky lemma, decided) and go through the digit-loop contracts.',
    design_ref='DESIGN.md section 6 (C03)',
    note='Trusted: composition argument (DESIGN 5), one correctly rounded IEEE multiply/divide on exact operands (O-IEEE), rustc MIR = compiled code, Kani/CBMC, z3/cvc5. Digit strings longer than the harness shapes (24 / 45 digits) are argued, not decided. Renderings are characterised, not computed (the renderers are not in the repository).',
    technique='derived from solver-decided contracts (MIR->SMT, Kani, ground SMT)',
    engine='mir2smt+kani'),
 'C04': dict(
    category='other',
    text='Every rustc-inserted assert and debug_assert! in the scalar kernels is an explicit terminator of the MIR built with debug assertions and overflow checks; a solver shows each unreachable for valid input, per class. Digit loops, rounding and glue: Kani (dev-profile semantics: any reachable panic fails). Big-integer capacity: ground bound from the MIR constants.',
    design_ref='DESIGN.md section 6 (C04)',
    note="One obligation family is NOT decided and is excluded from the claim (undecided_baseline.json U1: reachability of Eisel-Lemire's all-ones fallback below round()'s debug-assert range, debug builds only). O-CAP's bit-length abstraction is a written argument.",
    technique='MIR(debug-assertions)->SMT reachability of assert terminators + Kani BMC',
    engine='mir2smt+kani'),
 'C05': dict(
    category='other',
    text='Configurations differ in the moderate path, the vector back-end and the power source: Eisel-Lemire and Bellerophon are each proved equal to RN on the same classes; StackVec and HeapVec are proved against the same reference model; tables decided entry by entry.',
    design_ref='DESIGN.md section 6 (C05)',
    note="std's powf (system libm, FFI) used by std+compact builds is outside the technique. Trusted: composition argument (DESIGN 5), one correctly rounded IEEE multiply/divide on exact operands (O-IEEE), rustc MIR = compiled code, Kani/CBMC, z3/cvc5. Digit strings longer than the harness shapes (24 / 45 digits) are argued, not decided.",
    technique='relational via common specification: MIR->SMT both implementations, Kani both back-ends',
    engine='mir2smt+kani'),
 'C06': dict(
    category='other',
    text="The three cut mechanisms are decided separately: parse_number's 19-digit cut/flag/exponent (Kani, all digit values), the truncated-significand handling of the moderate path (w vs w+1, decline contract on [w,w+1]; MIR->SMT), parse_mantissa's MAX_DIGITS cut and sticky digit (Kani, `max` as parameter), and the sticky lemma (ground SMT with MAX_DIGITS from the MIR).",
    design_ref='DESIGN.md section 6 (C06)',
    note='Trusted: composition argument (DESIGN 5), one correctly rounded IEEE multiply/divide on exact operands (O-IEEE), rustc MIR = compiled code, Kani/CBMC, z3/cvc5. Digit strings longer than the harness shapes (24 / 45 digits) are argued, not decided.',
    technique='Kani BMC (digit loops) + MIR->SMT (truncated moderate path) + ground SMT',
    engine='mir2smt+kani'),
 'C07': dict(
    category='other',
    text='All (q, leading-zero) classes whose value can be subnormal, zero, in the top binade or infinite, for both moderate-path implementations and both formats; early-outs with the decimal exponent symbolic; the round primitive over its whole domain; exponent saturation of the digit loop over the full i32 range.',
    design_ref='DESIGN.md section 6 (C07)',
    note='Trusted: composition argument (DESIGN 5), one correctly rounded IEEE multiply/divide on exact operands (O-IEEE), rustc MIR = compiled code, Kani/CBMC, z3/cvc5. Digit strings longer than the harness shapes (24 / 45 digits) are argued, not decided.',
    technique='MIR->SMT on boundary classes + symbolic-exponent early-out queries + Kani BMC',
    engine='mir2smt+kani'),
 'C08': dict(
    category='other',
    text="Kani's memory-safety checks (pointer validity, bounds, unsafe preconditions) on the digit loops with unconstrained bytes, on all unsafe vector/big-integer code at every enumerated length with symbolic contents, plus solver obligations that every get_unchecked table index is in range.",
    design_ref='DESIGN.md section 6 (C08)',
    note='Clean panics are accepted (filtered by check class). Kani models the dev profile; release-mode wrapping is covered only where the index does not depend on digit values. No uninitialised-memory checker in Kani 0.68. Strings longer than 40 bytes outside the claim.',
    technique='Kani BMC memory-safety checks + MIR->SMT index obligations',
    engine='kani+mir2smt'),
 'C09': dict(
    category='other',
    text='Derived from correct rounding on both sides of every algorithm switch-over: the moderate path is proved for ALL significands of a class (not only those dispatched to it), the fast path for its whole window; RN is monotone.',
    design_ref='DESIGN.md section 6 (C09)',
    note='Trusted: composition argument (DESIGN 5), one correctly rounded IEEE multiply/divide on exact operands (O-IEEE), rustc MIR = compiled code, Kani/CBMC, z3/cvc5. Digit strings longer than the harness shapes (24 / 45 digits) are argued, not decided. No two-input query is made: each side is proved equal to RN of its own input.',
    technique='derived: MIR->SMT per class on both sides of each seam + Kani digit-loop contract',
    engine='mir2smt+kani'),
 'C10': dict(
    category='other',
    text='Relational Kani harnesses: the same symbolic digit array split at two points with compensated exponent yields identical (mantissa, exponent, flag); appended fraction zeros preserve the denoted value; the big-integer stage is entered with exponent e - #fraction digits for every split.',
    design_ref='DESIGN.md section 6 (C10)',
    note='Shapes up to 23 digits. The rest is C01/C02 (each path returns RN of the denoted value).',
    technique='Kani BMC relational harnesses (two runs of the real code on one symbolic input)',
    engine='kani'),
 'C12': dict(
    category='other',
    text='Kani/CBMC differential harnesses against textbook natural-number arithmetic: lengths enumerated, all limb values symbolic; the 64x64 multiplier abstracted by a call-log stub at large lengths; capacity edge (62 limbs) in every operation.',
    design_ref='DESIGN.md section 6 (C12)',
    note='long_mul only on tiny shapes (CBMC cost); real multiplier only at short lengths; HeapVec in thorough tier; 32-bit-limb targets not covered.',
    technique='Kani BMC, shape concrete / contents symbolic, call-log stubs',
    engine='kani'),
 'C13': dict(
    category='other',
    text='Inductive step with Kani: one operation with arbitrary arguments from an arbitrary valid state (length enumerated, contents symbolic) agrees with a reference sequence, keeps len <= capacity and leaves contents unchanged on failure; covers histories of any length because every valid state is constructible.',
    design_ref='DESIGN.md section 6 (C13)',
    note='HeapVec: thorough tier. unsafe fns exercised through their safe callers only.',
    technique='Kani BMC inductive step',
    engine='kani'),
 'C15': dict(
    category='other',
    text='All non-alloc harnesses (digit loops, big-integer primitives, slow-path glue) re-run with the global allocation entry points replaced by a failing stub; a twin harness that allocates must fail.',
    design_ref='DESIGN.md section 6 (C15)',
    note='Bounded like the harnesses; paths outside them are covered only by the syntactic scan of the MIR for allocation paths (assumption).',
    technique='Kani BMC with allocator stub (forbid_alloc)',
    engine='kani'),
 'C16': dict(
    category='other',
    text='The same bytes through slice iterators, a custom cursor, a chain split at a symbolic point and a sentinel-dropping filter give the same Number / call trace (Kani); stale vector storage is nondeterministic in CBMC so reading it fails the contents checks.',
    design_ref='DESIGN.md section 6 (C16)',
    note='Thread interleavings are NOT addressed (Kani does not model threads): only the syntactic absence of mutable statics is reported.',
    technique='Kani BMC over iterator shapes; nondeterministic uninitialised memory',
    engine='kani'),
 'C19': dict(
    category='other',
    text='The shipped front-end sources are compiled from /repo with the library call replaced by a logger and compared with an independent reference scanner for every byte string of length 0..6 (quick) / 0..8 (thorough): consumed prefix, remainder, what reaches the library (trimmed digits, saturated exponent), sign, no panic.',
    design_ref='DESIGN.md section 6 (C19)',
    note='The library value itself is C01/C02. Sources are trimmed mechanically (crate attributes, extern crate, main/tests; two fns made pub).',
    technique='Kani BMC over all byte strings of bounded length',
    engine='kani'),
}

CHECKS["C14"] = dict(
    category="other",
    text="Ground SMT queries over the table constants AS COMPILED (bytes / literals from rustc's MIR dump of the current tree) "
         "with the table index as the only free variable: every entry satisfies its defining inequalities (truncation, "
         "normalisation, exactness); powers on the specification side are built by a multiplication chain inside the solver.",
    design_ref="DESIGN.md sections 3 (E3), 6 (C14)",
    note="On-demand powers of the compact/no_std configurations (u64::pow, std powf = system libm via FFI, bundled libm pow) are "
         "not decided: FFI is outside the technique (stated in DESIGN.md).",
    technique="ground SMT (z3/cvc5) over compiled constants, index symbolic",
    engine="mir2smt")

ALL = ["C%02d" % i for i in range(1, 20)]
NOT_YET = "check not built yet in this round (planned, see DESIGN.md section 6)"

def main():
    checks = []
    for pid in ALL:
        if pid not in CHECKS:
            continue
        c = CHECKS[pid]
        checks.append({
            "property_id": pid,
            "quick_cmd": "./check %s --tier quick" % pid,
            "thorough_cmd": "./check %s --tier thorough" % pid,
            "evidence_file": "/verif/evidence/%s.json" % pid,
            "replay_cmd_template": "./check %s --replay {path}" % pid,
            "engine": c["engine"],
            "level_claimed": {"category": c["category"], "text": c["text"], "design_ref": c["design_ref"]},
            "level_note": c["note"],
            "technique": c["technique"],
        })
    na = [{"property_id": pid, "reason": NA.get(pid, NOT_YET)} for pid in ALL if pid not in CHECKS]
    m = {
        "version": 1,
        "setup_cmd": "./setup.sh",
        "hooks": {
            "guard": "cargo feature `verif` (off by default)",
            "enable": "checks copy /repo's working tree to a scratch directory and build it there; harness crates that need the "
                      "hook depend on the copy with features = [..., \"verif\"] (MIR: cargo +nightly rustc -- -Zunpretty=mir; "
                      "replay runner: cargo build with the configuration's features)",
            "baseline_off_cmd": "cd /repo && cargo test --workspace --no-fail-fast --offline",
            "source_commits": ["f165d18"],
            "add_only": True,
        },
        "engines": [
            {"name": "mir2smt", "path": "/verif/mir2smt", "serves_properties": sorted(CHECKS),
             "kind_free_text": "symbolic execution of rustc MIR (regenerated from /repo on every run) into SMT-LIB "
                               "(integer encoding for proofs, bit-vector encoding as fallback), z3 5.1.0 / cvc5 1.0.3 / z3 4.8.12 portfolio"},
            {"name": "kani", "path": "/verif/kani", "serves_properties": sorted(k for k, v in CHECKS.items() if "kani" in v["engine"]),
             "kind_free_text": "Kani 0.68 / CBMC 6.11 proof harnesses in external crates with a path dependency on a scratch copy of /repo"},
            {"name": "runner", "path": "/verif/runner", "serves_properties": sorted(CHECKS),
             "kind_free_text": "replay of solver counterexamples and translator validation on the compiled crate"},
        ],
        "checks": checks,
        "not_applicable": na,
        "notes": "Exit codes: 0 held on everything explored; 1 + VIOLATION line = replayed violation; 2 = some obligation "
                 "undecided (INCONCLUSIVE lines); 3 = the machinery disagrees with itself (BROKEN lines). "
                 "known_findings.json lists recorded defects (one repaired: see its `fixed` entry).",
    }
    json.dump(m, open(os.path.join(VERIF, "MANIFEST.json"), "w"), indent=1)
    print("wrote MANIFEST.json with %d checks, %d not_applicable" % (len(checks), len(na)))

NA = {}

if __name__ == "__main__":
    main()
