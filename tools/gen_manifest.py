#!/usr/bin/env python3
"""Regenerates /verif/MANIFEST.json from the table below (kept in one place so it is always valid)."""
import json, os, sys
VERIF = os.path.dirname(os.path.dirname(os.path.abspath(__file__)))

CHECKS = {
 "C11": dict(
    category="other",
    text="Bounded-exhaustive symbolic check of the real MIR of the moderate path: per (format, decimal exponent, "
         "leading-zero class) the 64-bit significand is a free solver variable; the negated rounding contract "
         "(definite => correctly rounded for w and, when truncated, for all of [w,w+1)) is refuted by z3/cvc5 or a "
         "counterexample is replayed on the compiled crate. Classes are enumerated (all in thorough, a seeded subset "
         "plus boundary classes in quick); within a class the verdict covers every significand.",
    design_ref="DESIGN.md sections 3 (E1), 6 (C11)",
    note="Trusted: rustc's MIR = compiled code, z3/cvc5, hand models of core integer intrinsics (validated each run "
         "against the compiled crate), the validated summary of bellerophon::mul (proved equal to the MIR body each run). "
         "Declined results are not constrained by C11 itself (their contract is checked for C01/C06).",
    technique="MIR symbolic execution -> SMT (LIA, per-class exhaustive), counterexample replay",
    engine="mir2smt"),
 "C17": dict(
    category="other",
    text="Kani/CBMC proof harnesses over the compiled crate: each float field helper (subnormal test, exponent, "
         "mantissa, raw-bit round trip, field packing, b / b+h) is compared with the IEEE-754 encoding for every bit "
         "pattern - the whole 2^64 (f64) / 2^32 (f32) domain is one symbolic input, so the SAT verdict is exhaustive.",
    design_ref="DESIGN.md sections 3 (E2), 6 (C17)",
    note="Trusted: Kani 0.68 codegen, CBMC 6.11, CaDiCaL. One harness per concrete instantiation (f32, f64).",
    technique="Kani bounded model checking (no loops: complete), vacuity witnesses via kani::cover",
    engine="kani"),
 "C18": dict(
    category="other",
    text="Kani/CBMC proof harnesses: round (nearest-even and truncating callbacks as used at the call sites) packed "
         "through extended_to_float equals a textbook oracle for every significand in [2^63,2^64) and every biased "
         "exponent in [-63,2100] (f64) / [-63,320] (f32); mask helpers for all widths 0..=64.",
    design_ref="DESIGN.md sections 3 (E2), 6 (C18)",
    note="Trusted: Kani 0.68 codegen, CBMC 6.11, CaDiCaL; the oracle (20 lines, in the harness). Counterexamples are "
         "replayed natively with Kani's concrete playback before a VIOLATION is printed.",
    technique="Kani bounded model checking over the full stated domain, concrete-playback replay",
    engine="kani"),
}

ALL = ["C%02d" % i for i in range(1, 20)]
NOT_YET = "check not built yet in this round (planned, see DESIGN.md section 6)"

def main():
    checks = []
    for pid in ALL:
        if pid not in CHECKS:
            continue
        c = CHECKS[pid]
        checks.append({
            "property_id": pid,
            "quick_cmd": "./check %s --tier quick" % pid,
            "thorough_cmd": "./check %s --tier thorough" % pid,
            "evidence_file": "/verif/evidence/%s.json" % pid,
            "replay_cmd_template": "./check %s --replay {path}" % pid,
            "engine": c["engine"],
            "level_claimed": {"category": c["category"], "text": c["text"], "design_ref": c["design_ref"]},
            "level_note": c["note"],
            "technique": c["technique"],
        })
    na = [{"property_id": pid, "reason": NA.get(pid, NOT_YET)} for pid in ALL if pid not in CHECKS]
    m = {
        "version": 1,
        "setup_cmd": "./setup.sh",
        "hooks": {
            "guard": "cargo feature `verif` (none needed so far: no hook commit exists; all checks read private "
                     "functions from rustc's MIR dump or use items that are already pub)",
            "enable": "checks copy /repo's working tree to a scratch directory and build it there "
                      "(MIR: cargo +nightly rustc -- -Zunpretty=mir; replay runner: cargo build with the configuration's features)",
            "baseline_off_cmd": "cd /repo && cargo test --workspace --no-fail-fast --offline",
            "source_commits": [],
            "add_only": True,
        },
        "engines": [
            {"name": "mir2smt", "path": "/verif/mir2smt", "serves_properties": sorted(CHECKS),
             "kind_free_text": "symbolic execution of rustc MIR (regenerated from /repo on every run) into SMT-LIB "
                               "(integer encoding for proofs, bit-vector encoding as fallback), z3 5.1.0 / cvc5 1.0.3 / z3 4.8.12 portfolio"},
            {"name": "kani", "path": "/verif/kani", "serves_properties": sorted(k for k, v in CHECKS.items() if v["engine"] == "kani"),
             "kind_free_text": "Kani 0.68 / CBMC 6.11 proof harnesses in external crates with a path dependency on a scratch copy of /repo"},
            {"name": "runner", "path": "/verif/runner", "serves_properties": sorted(CHECKS),
             "kind_free_text": "replay of solver counterexamples and translator validation on the compiled crate"},
        ],
        "checks": checks,
        "not_applicable": na,
        "notes": "Exit codes: 0 held on everything explored; 1 + VIOLATION line = replayed violation; 2 = some obligation "
                 "undecided (INCONCLUSIVE lines); 3 = the machinery disagrees with itself (BROKEN lines). "
                 "known_findings.json lists recorded defects (one repaired: see its `fixed` entry).",
    }
    json.dump(m, open(os.path.join(VERIF, "MANIFEST.json"), "w"), indent=1)
    print("wrote MANIFEST.json with %d checks, %d not_applicable" % (len(checks), len(na)))

NA = {}

if __name__ == "__main__":
    main()
