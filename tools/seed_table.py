#!/usr/bin/env python3
"""Render seeded/results_<tier>.json as the markdown table of DESIGN.md section 14."""
import json, os, sys
VERIF = os.path.dirname(os.path.dirname(os.path.abspath(__file__)))
tier = sys.argv[1] if len(sys.argv) > 1 else "quick"
res = json.load(open(os.path.join(VERIF, "seeded", "results_%s.json" % tier)))
res = {k: {p: v for p, v in r.items() if p != "groups" and isinstance(v, dict)} | {"_groups": r.get("groups")} for k, r in res.items() if isinstance(r, dict)}
rows = []
for name in sorted(res):
    meta = json.load(open(os.path.join(VERIF, "seeded", name, "meta.json")))
    what = meta.get("what", "")
    for prop, r in sorted((p, v) for p, v in res[name].items() if p != "_groups"):
        verdict = {0: "MISSED (exit 0)", 1: "caught (VIOLATION)", 2: "inconclusive (exit 2)", 3: "broken (exit 3)"}.get(r["exit"], str(r["exit"]))
        rows.append("| %s | %s | %s | %s | %ds | %s |" % (name, prop, what, verdict, r["wall_s"], r.get("first", "")[:110].replace("|", "/")))
print("| seeded change | check | what it changes | result (%s tier) | time | first violation reported |" % tier)
print("|---|---|---|---|---|---|")
print("\n".join(rows))
