#!/usr/bin/env python3
"""Confirm a seeded change in a scratch worktree of /repo:
   (1) patch applies on /repo HEAD, (2) crate builds and the existing suite passes with it,
   (3) the demonstration fails with it, (4) the demonstration passes without it.
Usage: confirm_seed.py <src_dir with mN.patch.diff/mN_demo.rs/notes.md> <N> <dest seeded dir> <property id> [features]"""
import json, os, shutil, subprocess, sys, time
src, n, dest, pid = sys.argv[1], sys.argv[2], sys.argv[3], sys.argv[4]
features = sys.argv[5] if len(sys.argv) > 5 else ""
patch = os.path.join(src, "m%s.patch.diff" % n)
demo = os.path.join(src, "m%s_demo.rs" % n)
wt = "/tmp/seedcheck_%s_%s" % (pid, n)
env = dict(os.environ, CARGO_NET_OFFLINE="true", CARGO_TARGET_DIR=wt + "/target")
def sh(cmd, cwd=None, timeout=1800):
    p = subprocess.run(cmd, shell=True, cwd=cwd, stdout=subprocess.PIPE, stderr=subprocess.STDOUT, env=env, timeout=timeout)
    return p.returncode, p.stdout.decode(errors="replace")
subprocess.run("git -C /repo worktree remove --force %s" % wt, shell=True, stdout=subprocess.DEVNULL, stderr=subprocess.DEVNULL)
rc, out = sh("git -C /repo worktree add -q --detach %s HEAD" % wt)
assert rc == 0, out
meta = {"property": pid, "mutation": "m%s" % n, "features_for_demo": features, "ran": [], "confirmed": False,
        "repo_head": subprocess.check_output("git -C /repo rev-parse --short HEAD", shell=True).decode().strip()}
try:
    feat = ("--features " + features) if features else ""
    demo_name = "seed_demo_%s_%s" % (pid.lower(), n)
    shutil.copy(demo, os.path.join(wt, "tests", demo_name + ".rs"))
    # (4) demo passes on the original
    rc, out = sh("cargo test --offline %s --test %s 2>&1 | tail -15" % (feat, demo_name), wt)
    ok_orig = "test result: ok" in out and "FAILED" not in out
    meta["ran"].append({"cmd": "cargo test --offline %s --test %s  [original]" % (feat, demo_name), "passes": ok_orig})
    # (1) apply
    rc, out1 = sh("git apply --3way %s || git apply %s" % (patch, patch), wt)
    meta["ran"].append({"cmd": "git apply " + os.path.basename(patch), "rc": rc})
    applied = rc == 0
    # (2) suite passes
    rc, out2 = sh("cargo test --offline 2>&1 | grep -E 'test result|FAILED|error' | head -40", wt)
    lines = [l for l in out2.split("\n") if l.startswith("test result")]
    suite_ok = applied and lines and all("ok." in l for l in lines) and "error" not in out2
    # exclude the demo itself from the suite verdict: run the suite without the demo file
    os.rename(os.path.join(wt, "tests", demo_name + ".rs"), os.path.join(wt, demo_name + ".rs.off"))
    rc, out2 = sh("cargo test --offline 2>&1 | grep -E 'test result|FAILED|error\\[' | head -40", wt)
    lines = [l for l in out2.split("\n") if l.startswith("test result")]
    suite_ok = applied and bool(lines) and all("ok." in l for l in lines) and "FAILED" not in out2 and "error[" not in out2
    meta["ran"].append({"cmd": "cargo test --offline  [with change, existing suite only]", "passes": suite_ok,
                        "tests_passed": sum(int(l.split("ok. ")[1].split(" passed")[0]) for l in lines) if lines else 0})
    os.rename(os.path.join(wt, demo_name + ".rs.off"), os.path.join(wt, "tests", demo_name + ".rs"))
    # (3) demo fails with the change
    rc, out3 = sh("cargo test --offline %s --test %s 2>&1 | tail -15" % (feat, demo_name), wt)
    fails = applied and ("FAILED" in out3 or "panicked" in out3 or "error: test failed" in out3 or "SIG" in out3 or "signal" in out3)
    meta["ran"].append({"cmd": "cargo test --offline %s --test %s  [with change]" % (feat, demo_name), "fails": fails,
                        "tail": out3[-600:]})
    meta["confirmed"] = bool(ok_orig and applied and suite_ok and fails)
finally:
    subprocess.run("git -C /repo worktree remove --force %s" % wt, shell=True, stdout=subprocess.DEVNULL, stderr=subprocess.DEVNULL)
    shutil.rmtree(wt, ignore_errors=True)
if meta["confirmed"]:
    os.makedirs(dest, exist_ok=True)
    shutil.copy(patch, os.path.join(dest, "patch.diff"))
    shutil.copy(demo, os.path.join(dest, "demo.rs"))
    notes = os.path.join(src, "notes.md")
    if os.path.exists(notes):
        shutil.copy(notes, os.path.join(dest, "agent_notes.md"))
    json.dump(meta, open(os.path.join(dest, "meta.json"), "w"), indent=1)
print(json.dumps({k: meta[k] for k in ("property", "mutation", "confirmed")}), [r.get("passes", r.get("fails", r.get("rc"))) for r in meta["ran"]])
