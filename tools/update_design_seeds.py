#!/usr/bin/env python3
"""Regenerates DESIGN.md section 14 (tables from seeded/results_quick_groups.json)."""
import json, os, subprocess
VERIF = os.path.dirname(os.path.dirname(os.path.abspath(__file__)))
res = json.load(open(os.path.join(VERIF, "seeded", "results_quick_groups.json")))
def rows(pred):
    out = []
    for name in sorted(res):
        if not pred(name) or not isinstance(res[name], dict):
            continue
        meta = json.load(open(os.path.join(VERIF, "seeded", name, "meta.json")))
        for prop, r in sorted((p, v) for p, v in res[name].items() if p != "groups" and isinstance(v, dict)):
            verdict = {0: "MISSED (exit 0)", 1: "caught (VIOLATION)", 2: "inconclusive (exit 2)", 3: "broken (exit 3)"}.get(r["exit"], "aborted")
            first = (r.get("first") or "").replace("|", "/")[:90]
            out.append("| %s | %s | %s | %s | %s | %ds | %s |" % (name, prop, meta.get("what", ""), ",".join(meta.get("groups") or []), verdict, r["wall_s"], first))
    return "\n".join(out)
hdr = "| seeded change | check | what it changes | group(s) run | result (quick tier) | time | first violation reported |\n|---|---|---|---|---|---|---|\n"
p = os.path.join(VERIF, "DESIGN.md")
s = open(p).read()
a = s.index("## 14. Seeded changes")
third = s[s.index("### Third round", a):] if "### Third round" in s[a:] else ""  # hand-written, kept verbatim
intro_end = s.index("First round (", a) if "First round (" in s[a:] else s.index("Every change is caught", a)
miss1 = s[s.index("Misses on the way, and what was strengthened", a):]
if "### Second round" in miss1:
    miss1 = miss1[:miss1.index("### Second round")]
r1 = rows(lambda n: "_r2" not in n and "_r3" not in n)
r2 = rows(lambda n: "_r2" in n)
n1 = len([l for l in r1.split("\n") if "caught" in l]); t1 = len(r1.split("\n"))
n2 = len([l for l in r2.split("\n") if "caught" in l]); t2 = len(r2.split("\n"))
text = s[:intro_end] + ("First round (47 changes): %d of %d caught (exit 1 with replayed VIOLATION lines) by the quick tier of the check of the\nproperty they were written against:\n\n" % (n1, t1)) + hdr + r1 + "\n\n" + miss1.rstrip() + "\n\n" + open(os.path.join(VERIF, "tools", "round2_notes.md")).read().replace("@N2@", str(n2)).replace("@T2@", str(t2)).replace("@TABLE2@", hdr + r2) + "\n" + (("\n" + third) if third else "")
open(p, "w").write(text)
print("round1 %d/%d, round2 %d/%d" % (n1, t1, n2, t2))
