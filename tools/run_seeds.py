#!/usr/bin/env python3
"""Apply each confirmed seeded change to /repo (git apply), run the check of the property it breaks, undo it
(git checkout -- .), and record what the check said.  Usage: run_seeds.py [--tier quick] [names...]"""
import json, os, subprocess, sys, time
VERIF = os.path.dirname(os.path.dirname(os.path.abspath(__file__)))
tier = "quick"
args = [a for a in sys.argv[1:]]
if "--tier" in args:
    i = args.index("--tier"); tier = args[i + 1]; del args[i:i + 2]
extra_props = {}
names = args or sorted(d for d in os.listdir(os.path.join(VERIF, "seeded")) if os.path.isdir(os.path.join(VERIF, "seeded", d)))
out_path = os.path.join(VERIF, "seeded", "results_%s.json" % tier)
results = json.load(open(out_path)) if os.path.exists(out_path) else {}
assert subprocess.run("git -C /repo status --porcelain -uno", shell=True, stdout=subprocess.PIPE).stdout.strip() == b"", "/repo not clean"
for name in names:
    d = os.path.join(VERIF, "seeded", name)
    meta = json.load(open(os.path.join(d, "meta.json")))
    props = [meta["property"]] + meta.get("also_check", [])
    rc = subprocess.run(["git", "-C", "/repo", "apply", os.path.join(d, "patch.diff")]).returncode
    if rc != 0:
        results[name] = {"error": "patch does not apply on current /repo HEAD"}
        continue
    try:
        for prop in props:
            t0 = time.time()
            p = subprocess.run(["./check", prop, "--tier", tier], cwd=VERIF, stdout=subprocess.PIPE, stderr=subprocess.STDOUT)
            out = p.stdout.decode(errors="replace")
            viol = [l for l in out.split("\n") if l.startswith("VIOLATION")]
            results.setdefault(name, {})[prop] = {
                "exit": p.returncode, "violations": len(viol), "wall_s": round(time.time() - t0),
                "first": (out.split("\n")[out.split("\n").index(viol[0]) + 1][:300] if viol and out.split("\n").index(viol[0]) + 1 < len(out.split("\n")) else ""),
                "last_line": out.strip().split("\n")[-1][:300]}
            print(name, prop, "exit", p.returncode, "violations", len(viol), round(time.time() - t0), "s", flush=True)
    finally:
        subprocess.run(["git", "-C", "/repo", "checkout", "--", "."])
    json.dump(results, open(out_path, "w"), indent=1)
print("done")
