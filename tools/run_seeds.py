#!/usr/bin/env python3
"""Run the checks against each confirmed seeded change.

Default (protocol of the brief): apply the patch to /repo (git apply), run the check of the property it breaks, undo it
(git checkout -- .), strictly one at a time.
--worktrees N: instead give each change its own scratch worktree of /repo under /tmp/mut (removed afterwards) and point the
check at it with VERIF_REPO; N changes run concurrently.  The check code path is identical (it copies $VERIF_REPO's working tree).
--groups: restrict each run to the obligation groups named in the change's meta.json ("groups") via VERIF_ONLY_GROUPS; the
result file records that.
Usage: run_seeds.py [--tier quick] [--worktrees N] [--groups] [names...]"""
import json, os, subprocess, sys, time, shutil
from concurrent.futures import ThreadPoolExecutor
VERIF = os.path.dirname(os.path.dirname(os.path.abspath(__file__)))
args = sys.argv[1:]
def opt(name, has_val):
    if name in args:
        i = args.index(name)
        v = args[i + 1] if has_val else True
        del args[i:i + (2 if has_val else 1)]
        return v
    return None
tier = opt("--tier", True) or "quick"
nwt = int(opt("--worktrees", True) or 0)
use_groups = bool(opt("--groups", False))
names = args or sorted(d for d in os.listdir(os.path.join(VERIF, "seeded")) if os.path.isdir(os.path.join(VERIF, "seeded", d)))
out_path = os.path.join(VERIF, "seeded", "results_%s%s.json" % (tier, "_groups" if use_groups else ""))
results = json.load(open(out_path)) if os.path.exists(out_path) else {}

def run_check(prop, env):
    t0 = time.time()
    p = subprocess.run(["./check", prop, "--tier", tier], cwd=VERIF, stdout=subprocess.PIPE, stderr=subprocess.STDOUT, env=env)
    out = p.stdout.decode(errors="replace")
    lines = out.split("\n")
    viol = [i for i, l in enumerate(lines) if l.startswith("VIOLATION")]
    return {"exit": p.returncode, "violations": len(viol), "wall_s": round(time.time() - t0),
            "first": (lines[viol[0] + 1].strip()[:300] if viol and viol[0] + 1 < len(lines) else ""),
            "other": [l[:200] for l in lines if l.startswith(("INCONCLUSIVE", "BROKEN"))][:3],
            "last_line": out.strip().split("\n")[-1][:300]}

def one(name):
    d = os.path.join(VERIF, "seeded", name)
    meta = json.load(open(os.path.join(d, "meta.json")))
    env = dict(os.environ)
    if use_groups and meta.get("groups"):
        env["VERIF_ONLY_GROUPS"] = ",".join(meta["groups"])
    res = {"groups": meta.get("groups") if use_groups else None}
    if nwt:
        wt = "/tmp/mut/" + name
        subprocess.run("git -C /repo worktree remove --force %s" % wt, shell=True, stdout=subprocess.DEVNULL, stderr=subprocess.DEVNULL)
        os.makedirs("/tmp/mut", exist_ok=True)
        assert subprocess.run(["git", "-C", "/repo", "worktree", "add", "-q", "--detach", wt, "HEAD"]).returncode == 0
        try:
            if subprocess.run(["git", "-C", wt, "apply", os.path.join(d, "patch.diff")]).returncode != 0:
                return name, {"error": "patch does not apply"}
            env["VERIF_REPO"] = wt
            for prop in [meta["property"]] + meta.get("also_check", []):
                res[prop] = run_check(prop, env)
                print(name, prop, res[prop]["exit"], res[prop]["violations"], res[prop]["wall_s"], "s", flush=True)
        finally:
            subprocess.run("git -C /repo worktree remove --force %s" % wt, shell=True, stdout=subprocess.DEVNULL, stderr=subprocess.DEVNULL)
            shutil.rmtree(wt, ignore_errors=True)
    else:
        assert subprocess.run("git -C /repo status --porcelain -uno", shell=True, stdout=subprocess.PIPE).stdout.strip() == b"", "/repo not clean"
        if subprocess.run(["git", "-C", "/repo", "apply", os.path.join(d, "patch.diff")]).returncode != 0:
            return name, {"error": "patch does not apply"}
        try:
            for prop in [meta["property"]] + meta.get("also_check", []):
                res[prop] = run_check(prop, env)
                print(name, prop, res[prop]["exit"], res[prop]["violations"], res[prop]["wall_s"], "s", flush=True)
        finally:
            subprocess.run(["git", "-C", "/repo", "checkout", "--", "."])
    return name, res

if nwt:
    with ThreadPoolExecutor(nwt) as ex:
        for name, r in ex.map(one, names):
            results[name] = r
            json.dump(results, open(out_path, "w"), indent=1)
else:
    for n in names:
        name, r = one(n)
        results[name] = r
        json.dump(results, open(out_path, "w"), indent=1)
print("done")
